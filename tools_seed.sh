#!/bin/bash
# tools_seed.sh <ID> <n> [extra check IDs...] — maintenance helper (not a check).
# Confirms a sub-agent's seeded change in its scratch worktree (existing suite passes with it, its
# demonstration fails with it and passes without), runs the quick checks against it in /repo,
# reverts, and files everything under /verif/seeded/<ID>-<n>/. Env WT=<worktree dir>, OUTN=<number to file under>.
ID="$1"; N="$2"; shift 2; EXTRA="$@"
W=${WT:-/tmp/wt/$ID}; S=$W/_seed; ON=${OUTN:-$N}; OUT=/verif/seeded/$ID-$ON
[ -f $S/change$N.diff ] || { echo "no $S/change$N.diff"; exit 2; }
cd $W && git checkout -q -- . && rm -f tests/seed_demo_test.rs
# demonstration on the clean tree
cp $S/demo${N}_test.rs tests/seed_demo_test.rs
cargo test --offline --test seed_demo_test > /tmp/seed_clean.log 2>&1; CLEAN=$?
git apply $S/change$N.diff || { echo "patch does not apply"; exit 2; }
cargo test --offline --test seed_demo_test > /tmp/seed_mut.log 2>&1; MUT=$?
rm -f tests/seed_demo_test.rs
cargo test --offline > /tmp/seed_suite.log 2>&1; SUITE=$?
git checkout -q -- . 
echo "demo on clean tree: exit $CLEAN (want 0); demo with change: exit $MUT (want != 0); existing suite with change: exit $SUITE (want 0)"
mkdir -p $OUT && cp $S/change$N.diff $OUT/patch.diff && cp $S/demo${N}_test.rs $OUT/ 2>/dev/null; cp $S/demo$N.* $S/expected$N.txt $S/wrong$N.txt $S/notes$N.md $OUT/ 2>/dev/null
cd /verif && ./tools_mut.sh $OUT/patch.diff $ID $EXTRA | tee /tmp/seed_checks.log | grep "^=="
python3 - "$ID" "$ON" "$CLEAN" "$MUT" "$SUITE" "$OUT" <<'PY'
import json,sys,re
ID,N,CLEAN,MUT,SUITE,OUT=sys.argv[1:7]
res={}
for l in open('/tmp/seed_checks.log'):
    m=re.match(r'== (C\d+) exit=(\d+)\s+(\d+) violation',l)
    if m: res[m.group(1)]={'exit':int(m.group(2)),'violation_lines':int(m.group(3))}
notes=''
import glob
for f in glob.glob(OUT+'/notes*.md'):
    notes=open(f).read()
meta={'id':'%s-%s'%(ID,N),'breaks_property':ID,'author':'independent sub-agent (saw only the property text and a scratch worktree)',
 'needs_to_manifest':notes[:1500],
 'confirmed':{'demonstration_passes_on_clean_tree':CLEAN=='0','demonstration_fails_with_change':MUT!='0','existing_suite_passes_with_change':SUITE=='0',
   'how':'tools_seed.sh: cargo test --offline in the scratch worktree with and without the patch'},
 'quick_checks_against_it':res}
json.dump(meta,open(OUT+'/meta.json','w'),indent=1)
print(json.dumps(res))
PY
