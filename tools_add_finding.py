#!/usr/bin/env python3
"""tools_add_finding.py <id> <property> <status> <commit-or-> <signature> <what> [repro-json-file]
Maintenance helper (never run by a check): appends an entry to known_findings.json."""
import json, sys
fid, prop, status, commit, sig, what = sys.argv[1:7]
repro = json.load(open(sys.argv[7])) if len(sys.argv) > 7 else None
p = '/verif/known_findings.json'
d = json.load(open(p))
d['findings'] = [f for f in d['findings'] if f['id'] != fid]
e = {'id': fid, 'property': prop, 'status': status, 'signature': sig, 'what': what}
if status == 'fixed':
    e['commit'] = commit
    e['record'] = 'fixed: property=%s %s %s' % (prop, commit, what)
if repro is not None:
    e['repro'] = {k: repro[k] for k in ('check', 'tape_hex', 'item') if k in repro}
d['findings'].append(e)
json.dump(d, open(p, 'w'), indent=1, ensure_ascii=False)
print('ok', fid)
