#!/bin/sh
# tools_mut.sh <patch-file> <ID> [<ID>...]  — maintenance helper (not a check):
# applies a patch to /repo's working tree, runs the quick checks, and always reverts.
P="$1"; shift
cd /repo && git apply "$P" || { echo "patch does not apply"; exit 2; }
cd /verif
for id in "$@"; do
  ./run_check.sh "$id" quick > /tmp/mut_$id.log 2>&1; rc=$?
  echo "== $id exit=$rc  $(grep -c '^VIOLATION' /tmp/mut_$id.log) violation line(s)"
  grep -E "^--- |^VIOLATION" /tmp/mut_$id.log | head -6
done
git -C /repo checkout -- . 
