#![no_main]
//! C03: the fuzzer input is the byte tape of one protocol-respecting session (the same decoder
//! as the proptest sub-check); the validity predicate runs inside the target.
use libfuzzer_sys::fuzz_target;
use std::sync::Once;

static INIT: Once = Once::new();

fuzz_target!(|data: &[u8]| {
    INIT.call_once(|| verif_check::drive::install_panic_hook());
    if let Some(report) = verif_check::checks::c03::fuzz_session(data) {
        eprintln!("C03 VIOLATION\n{}", report);
        std::process::abort();
    }
});
