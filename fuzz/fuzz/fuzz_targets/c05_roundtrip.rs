#![no_main]
//! C05: the fuzzer input is one source line; the round-trip oracle runs inside the target.
use libfuzzer_sys::fuzz_target;
use std::sync::Once;

static INIT: Once = Once::new();

fuzz_target!(|data: &[u8]| {
    INIT.call_once(|| verif_check::drive::install_panic_hook());
    if let Some(report) = verif_check::checks::c05::fuzz_line(data) {
        eprintln!("C05 VIOLATION\n{}", report);
        std::process::abort();
    }
});
