//! Parent project of the cargo-fuzz targets (cargo-fuzz wants one).
