#!/usr/bin/env python3
"""Maintenance helper: regenerates MANIFEST.json from the table below (never run by a check)."""
import json, subprocess

ALL = ["C%02d" % i for i in range(1, 21)]

# id -> (technique, level text, level note, design ref)
CHECKS = {
    "C01": (
        "proptest-generated programs of the well-defined fragment (+ replies, RUN/RUN n/CONT, TRON, quanta) against a reference interpreter written from the manual; transcripts and final variables must be identical",
        "Exploration with a reference model: 150k generated programs per quick run (millions in thorough), each composing statement kinds freely (nesting, multi-statement lines, loops left early, shared FOR/GOSUB stack, ON ranges, error endings with line numbers, TRON trace), executed by the implementation and by a statement-by-statement interpreter that has no compiler, no addresses and no shared code; any difference in output, prompts, trace, error code or line is reported with the shrunk program. A guard compares the parser's AST of every generated line with the generator's tree.",
        "Trusted base: model.rs/sem.rs (decisions A1..A18, DESIGN.md Appendix A). Only the generated fragment is covered; lenient zones: trace of code-less lines and of user-function bodies, error line inside function bodies, CONT after an error.",
        "6 C01",
    ),
    "C02": (
        "proptest-generated typed expression trees (all operators, functions, literal spellings, boundary operands, minimal and redundant parenthesisation) + exhaustive operator x operand-pair matrix, against a reference evaluator written from the manual",
        "Exploration with a reference model that yields value and type (or the BASIC error) for every tree; the implementation is observed through PRINT, two type probes and five typed stores per case. The operator x type-pair x boundary-value matrix (18432 cases) is complete; random trees sample compositions (precedence, associativity, promotion chains).",
        "The reference evaluator (sem.rs) is the trusted base; its reading of the manual is listed in DESIGN.md Appendix A. Floats: IEEE-exact except transcendentals/float powers (2 ulp); float = within the undocumented epsilon is discarded.",
        "6 C02",
    ),
    "C09": (
        "proptest-generated DATA-centred programs entered through edit histories, against the reference interpreter on the final listing (source-order constant list, RESTORE [n] pointer semantics, conversion as assignment)",
        "Exploration with a reference model: DATA lines anywhere among the code, typed constants and typed targets, RESTORE / RESTORE n for any line, counted and fuel-bounded re-reads, a reading subroutine, CLEAR, OUT OF DATA; the program is typed out of order with DATA lines replaced, deleted and re-added and partial runs in between, then RUN, direct READs and RUN n are compared with the model.",
        "Trusted base: model.rs / sem.rs (A15). The edit history only matters through the final listing, which is asserted to equal the intended one.",
        "6 C09",
    ),
    "C10": (
        "proptest-generated programs around DEF FN (typed names and parameters, shadowing, nesting to depth 6, calls in subscripts / loop bounds / conditions / arguments, DEFtype on parameter letters and on F, error endings) against the reference interpreter; literal cases for the documented error codes",
        "Exploration with a reference model implementing call-by-value with local parameters and call-time evaluation; transcripts (values, shadowed globals afterwards, error code and line) must be identical; error paths (arity, undefined, before DEF, recursion to OUT OF MEMORY, DEF in direct mode) are followed by further direct statements to show the session stays usable.",
        "Trusted base: model.rs (A16). Result conversion to the function name's type is not documented: bodies are wrapped in CINT/CSNG/CDBL.",
        "6 C10",
    ),
    "C11": (
        "exhaustive enumeration of all Integers + proptest-generated Single/Double bit patterns judged by round-trip and minimality of the printed digits; proptest-generated PRINT programs against the reference column model; the manual's examples literally",
        "Exploration with two independent oracles: (a) every printed number must start with blank/minus, end with one blank, read back to the same bits of its type and be no longer than the shortest round-trip form - complete for Integers, sampled over boundary-rich distributions for floats; (b) a column model (zones of 14, TAB, SPC, POS, embedded line feeds, trace text, INPUT and error resets, column carried across statements, lines, runs) prescribes the whole transcript of generated PRINT programs.",
        "The number oracle is independent of the notation the implementation chooses; the layout model uses the reference formatter for number texts.",
        "6 C11",
    ),
    "C12": (
        "differential testing over proptest-generated session prefixes (earlier complete/failed/stopped/interrupted runs, direct assignments, DIM, DEFtype, partial READ, open FOR/GOSUB frames, program switches): RUN after the prefix vs RUN in a fresh interpreter; CLEAR/NEW + probe battery vs fresh",
        "Exploration of session histories with a differential oracle: whatever the prefix left behind, RUN / RUN n must give the transcript and final variables of a fresh interpreter holding the same listing, and after CLEAR or NEW an 18-probe battery (every name, re-DIM, DEFtype exposure, READ, RETURN, NEXT, CONT, FNx) must be indistinguishable from a fresh start.",
        "Same implementation on both sides; the prefix generator aims at every kind of state the statement lists (labels in the evidence show how often each kind was present).",
        "6 C12",
    ),
    "C13": (
        "differential testing over schedules: proptest-generated programs single-stepped and interrupted at every instruction boundary (and every INPUT wait) then CONT, STOP/END inserted at random statement boundaries, and eight step quanta + random per-call quanta, all compared with the uninterrupted run",
        "Exploration of the schedule space with a differential oracle: for short runs every k of 'interrupt after k instructions' is tried (sampled above 120/400), so each generated program contributes a complete sweep of its interruption points; output before the break + output after CONT, prompts, errors and final variables must equal the uninterrupted run; all quanta must give identical event streams.",
        "Same implementation on both sides: detects schedule-dependent behaviour only. The verif-hooks probe classifies interruption points (inside the program, pending error) and detects the forced newline; comparisons use public events.",
        "6 C13",
    ),
    "C14": (
        "proptest-generated link-clean programs (every referencing form, multi-byte text before references, references inside strings/remarks, line 0 and 65529) x RENUM argument triples, against a reference renumberer on the harness AST; plus before/after behaviour under TRON up to the line-number map",
        "Exploration with a reference model: the listing after RENUM must equal, character for character, the canonical text of the tree renumbered by the harness (which implies that every operand was rewritten and nothing else moved), or be unchanged when an error is shown; infeasible renumberings must be refused; half of the cases also compare the traced run before and after.",
        "Trusted base: the canonical printer (guarded: generated text parses to the generator's tree and lists verbatim) and the 40-line reference renumberer. A refusal of a feasible renumbering is allowed by the statement.",
        "6 C14",
    ),
    "C15": (
        "bounded-exhaustive enumeration of edit/LIST/DELETE histories over small line-number universes + proptest random long histories (incl. LOAD of generated files) + stores beyond the 64K pools, against a BTreeMap reference model compared after every step",
        "Exploration with a reference model. Small scope is complete: every history of up to 3 operations (4 in thorough) over {0,1,10,65528,65529} and {0,10,65529}, every range form including inverted ones and numbers above 65529; after each operation the whole listing, every ranged LIST and Listing::line are compared with the model. Random histories of up to 60 operations cover the full number range.",
        "Line texts are canonical so that listed text equals typed text (fidelity is C05). Longer histories only sampled.",
        "6 C15",
    ),
    "C03": (
        "proptest-generated lines and protocol-respecting call sessions (enter/execute/interrupt/snapshot/set_listing) against a validity predicate: catch_unwind, wedge watchdog, bounded recovery to READY; deepest-possible nesting in child processes; code-pool boundary sessions; thorough tier adds a coverage-guided libFuzzer campaign (cargo-fuzz target c03_session, same decoder and oracle in-target)",
        "Exploration by generated inputs and schedules: hundreds of thousands of lines (snippets, token soup over the whole vocabulary, mutations, arbitrary UTF-8, 1024-byte lines) and sessions per run, each ending with the recovery clause (interrupt, Stopped within 16 calls, PRINT 1 works). A panic anywhere in the library or a call that does not return is reported with the shrunk session.",
        "Absence only up to sampling. Wedges are judged on the case's CPU time (20 s per case, re-confirmed in a fresh process); libFuzzer artifacts count only when the harness replay reproduces them. The terminal protocol of src/term/mod.rs is assumed; the real terminal (readline, signals, files) is emulated.",
        "6 C03",
    ),
    "C04": (
        "model-free differential testing over proptest-generated edit histories: the history-laden interpreter vs a fresh interpreter fed get_listing(); metamorphic clause that CONT/RETURN/NEXT/FNx cannot resume into an edited program; invariant that non-editing direct statements leave the listing unchanged",
        "Exploration of edit histories (insert/replace/delete/bare numbers/DELETE ranges/RENUM/NEW/load, partial and interrupted runs, direct statements) with a differential oracle: RUN or RUN n after the history must equal the same command in a fresh interpreter holding the listing, transcript and final variables; after an effective edit following a stopped run nothing of the old execution may run (TRON shows any executed line).",
        "Same implementation on both sides: finds history dependence (stale compile, stale frames), not errors common to both. 'Effective edit' is decided by comparing get_listing() before and after.",
        "6 C04",
    ),
    "C05": (
        "bounded-exhaustive enumeration of short strings over five lexical alphabets x six contexts + proptest random long lines (incl. lines at the 1024-byte limit) + in thorough a coverage-guided libFuzzer campaign (cargo-fuzz target c05_roundtrip, oracle in-target), round-trip oracle (list, re-enter, list) on number / column-free AST / text / literals, via Line, Listing::load_str and the runtime's LIST",
        "Exploration with a round-trip oracle. The small-scope part is complete: every string of up to k symbols of each alphabet in each context (3.6 million lines per quick run, k up to 6 in thorough) is listed and re-entered; the lexer's scanners are driven through every short combination of digits, exponent letters, suffixes, radix prefixes, relational characters, quotes, remark markers and keyword letters. Long random lines (soup, mutated/re-spelled snippets, arbitrary UTF-8) sample the rest.",
        "Meaning = public AST with columns erased. File I/O of SAVE/LOAD is emulated by Listing::load_str. Beyond length k only sampled.",
        "6 C05",
    ),
    "C06": (
        "proptest-generated statement sequences over a universe of colliding names (scalars and arrays of every type, DIM/ERASE/SWAP/DEFtype/CLEAR, boundary subscripts) compared step by step with a reference store model, plus a final aliasing sweep over everything touched",
        "Exploration with a reference model: after every generated statement the printed read (or the error) must match a map from (name, subscripts) to a typed value; type-revealing sentinels show the type a value was stored in; a final sweep reads every name and element ever touched so that aliasing between distinct names, arrays and elements is visible.",
        "Trusted base: the store in model.rs (A10, A11). DEFtype: variables of other letters may be kept or dropped (observed once).",
        "6 C06",
    ),
    "C07": (
        "exhaustive cross product of boundary strings x patterns x positions over 22 string-operation forms + proptest random strings, against character-based reference implementations written from the manual; metamorphic identities",
        "Exploration with a reference model: the boundary matrix (12 subjects incl. 2/3/4-byte characters and 254/255-character strings, 11 patterns, 19 positions/counts) is enumerated completely for every form (41k cases); random strings over a mixed alphabet with patterns cut from the subject sample the rest. Results must be exact; out-of-domain arguments must produce a BASIC error; four metamorphic identities tie the functions to each other.",
        "Trusted base: sem.rs string functions (Chapter 3). Open points of the manual (INSTR with negative start or beyond the end with an empty pattern, VAL of INF/NAN) are skipped.",
        "6 C07",
    ),
    "C08": (
        "exhaustive enumeration (all 65536 Integers; boundary-pair cross product) + proptest random operand pairs against an i64 reference",
        "Exploration with an exact arithmetic oracle: every unary operation over the whole 16-bit range and every boundary pair is enumerated completely, random pairs cover the rest of the 2^32 pair space by sampling; float-to-Integer conversion is enumerated at every k+-delta around the limits through seven conversion sites. A wrapped or silently truncated value anywhere in these spaces is seen as a wrong printed number.",
        "Trusts PRINT of an Integer (validated by C11) and the harness build profile (overflow checks off, like the shipped binary). Random part: absence only up to sampling.",
        "6 C08",
    ),
    "C16": (
        "metamorphic testing over spellings: proptest-generated programs re-spelled (letter case, glued keywords, ?, GO TO/GO SUB, =< =>, blanks inside relational operators, extra blanks, optional LET, REM/') must parse to the generator's tree, list identically (tight variants) and run identically",
        "Exploration with a metamorphic oracle: each program is rendered in 4 (thorough 8) random spellings produced from the harness's token stream; for every variant line the parser's column-free AST must equal the tree the text was generated from, tight variants must LIST exactly like the canonical program, and RUN transcripts and final variables must be equal.",
        "Blank-dropping uses a conservative may_glue predicate built on the harness's own reserved-word list; a wrong entry there would surface as a reported mismatch, never as silence.",
        "6 C16",
    ),
    "C17": (
        "proptest-generated INPUT statements (prompt forms, leading comma, 1-5 typed targets, array targets subscripted by earlier fields) x reply scripts (well-formed, wrong field count, unconvertible fields, quoted commas, blanks, every numeric spelling, over-long) against the reference interpreter's INPUT",
        "Exploration with a reference model of the reply grammar: prompt text and caps flag, field splitting, trimming, unquoting, conversion per target type, REDO FROM START with the same prompt, acceptance, column reset; whole dialogues (prompts, replies, error lines, values and types of the targets afterwards) are compared.",
        "Trusted base: model.rs accept_reply + sem.rs parse_number (A17). Undocumented spellings (INF/NAN, signed radix digits) are not generated; side effects of rejected replies are not asserted.",
        "6 C17",
    ),
    "C18": (
        "proptest-generated terminating bodies iterated in a loop with the value-stack depth sampled at every loop head through the verif-hooks probe (stateful invariant), a 70000-iteration public-API run, generated set/zero sequences against a live-variable count model, an enumeration of 19 limit scenarios, and direct statements (110 kinds, alone and in generated lines of 1-3) typed repeatedly against valid and refused programs",
        "Exploration of the history space 'same statement sequence, any number of times': a one-value leak per iteration is visible after two iterations in the probe and after 65536 iterations without it; variable slots are compared with a count model after every assignment; every pool (value stack via GOSUB/FN/FOR/ON..GOSUB, variables, DATA, code, line length) is driven past its limit and the session must answer PRINT 1+1, NEW, a fresh program and an assignment afterwards.",
        "The probe is read-only and only used for the residue and slot counts; the long run and the limit scenarios use public events only. Abandoned FOR/GOSUB frames are legitimate stack use and are excluded by construction.",
        "6 C18",
    ),
    "C19": (
        "fault injection into proptest-generated programs (dangling targets in every referencing form, deleted lines, unmatched WHILE/WEND, token damage, multi-byte text before the fault) with the canonical printer's span table as oracle for error positions; execution gate observed with TRON",
        "Exploration with an exact positional oracle: the harness knows the character span of every line-number operand and WHILE/WEND keyword in the listed text, so the set of UNDEFINED LINE / WHILE WITHOUT WEND / WEND WITHOUT WHILE diagnostics and LIST's underline ranges must equal the injected faults as multisets; every diagnostic must lie inside its listed line; with TRON on, RUN, RUN n, GOTO n, GOSUB n, IF..THEN n, ON..GOTO/GOSUB n and CONT must not trace or print anything while PRINT 6*7 still works.",
        "Trusted base: the span table of the canonical printer (guarded by the parse/list guard in C01/C14). With token damage only positional validity and the gate are checked, because the implementation then withholds link-time diagnostics.",
        "6 C19",
    ),
    "C20": (
        "metamorphic testing: proptest-generated programs under layout transformations (renumbering, inserted remark/unreachable lines, empty statements, line splitting) must behave identically up to reported line numbers; direct lines independent of the program in memory; direct line vs one-line program",
        "Exploration with a metamorphic oracle: each case runs the original and the transformed program (and a direct line with three different programs in memory) and compares transcripts and final variables exactly after mapping line numbers back; the transformations move the code address of jump targets, WHILE/WEND pairs, DATA and FOR/GOSUB return points without changing meaning.",
        "Same implementation on both sides; meaning-preservation of the transformations rests on the manual's line semantics (IF scoping is respected when splitting).",
        "6 C20",
    ),
}

NOT_YET = "check under construction in this session (will be claimed once its generator and oracle are committed)"


def main():
    hooks_commits = []
    try:
        out = subprocess.check_output(["git", "-C", "/repo", "log", "--format=%h %s"], text=True)
        for line in out.splitlines():
            if line.split(" ", 1)[1].startswith("verif-hooks"):
                hooks_commits.append(line.split(" ", 1)[0])
    except Exception:
        pass
    m = {
        "version": 1,
        "setup_cmd": "./setup.sh",
        "hooks": {
            "guard": "cargo feature verif-hooks (off by default)",
            "enable": "the harness crate depends on basic-lang by path /repo with features=[\"verif-hooks\"]; run_check.sh rebuilds it from /repo's working tree on every call",
            "baseline_off_cmd": "cd /repo && cargo test --workspace --no-fail-fast --offline",
            "source_commits": hooks_commits,
            "add_only": True,
        },
        "engines": [
            {
                "name": "verif-check",
                "path": "harness/",
                "serves_properties": sorted(CHECKS.keys()),
                "kind_free_text": "Rust harness: proptest-driven byte tapes decoded into programs/histories/schedules (shrinking = tape shrinking), bounded-exhaustive enumerators, reference semantics + reference interpreter, terminal emulator with catch_unwind and a wedge watchdog",
            }
        ],
        "checks": [],
        "not_applicable": [],
        "notes": "Every check: ./run_check.sh <ID> quick|thorough ; replay: ./run_check.sh <ID> --replay <file>. VERIF_SEED seeds all generators. Exit 0 held / 1 VIOLATION / 2 inconclusive (build failure, wedge outside C03). Known findings: known_findings.json.",
    }
    for pid in ALL:
        if pid in CHECKS:
            tech, text, note, ref = CHECKS[pid]
            m["checks"].append(
                {
                    "property_id": pid,
                    "quick_cmd": "./run_check.sh %s quick" % pid,
                    "thorough_cmd": "./run_check.sh %s thorough" % pid,
                    "evidence_file": "evidence/%s.json" % pid,
                    "replay_cmd_template": "./run_check.sh %s --replay {path}" % pid,
                    "engine": "verif-check",
                    "level_claimed": {"category": "exploration", "text": text, "design_ref": "DESIGN.md section " + ref},
                    "level_note": note,
                    "technique": tech,
                }
            )
        else:
            m["not_applicable"].append({"property_id": pid, "reason": NOT_YET})
    json.dump(m, open("/verif/MANIFEST.json", "w"), indent=1)
    print("MANIFEST.json:", len(m["checks"]), "checks,", len(m["not_applicable"]), "not claimed")


if __name__ == "__main__":
    main()
