#!/bin/sh
# Builds the framework offline from files on disk.
cd "$(dirname "$0")" || exit 2
export CARGO_NET_OFFLINE=true
(cd harness && cargo build --release --offline) || exit 1
mkdir -p evidence replays
exit 0
