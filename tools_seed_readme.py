#!/usr/bin/env python3
# Regenerates /verif/seeded/README.md from the meta.json files (maintenance helper, not a check).
import json, glob, os, re
rows = []
for d in sorted(glob.glob('/verif/seeded/C*-*')):
    try:
        m = json.load(open(d + '/meta.json'))
    except Exception:
        continue
    notes = ''
    for f in sorted(glob.glob(d + '/notes*.md')):
        notes = open(f).read()
    title = notes.strip().split('\n')[0].lstrip('# ').strip() if notes else ''
    title = re.sub(r'^(Change|C\d+ (seed|change)|notes\d?)\s*\d*\s*[-—:]*\s*', '', title).strip()
    res = m.get('quick_checks_against_it', {})
    caught = [k for k, v in sorted(res.items()) if v.get('exit') == 1]
    missed = [k for k, v in sorted(res.items()) if v.get('exit') == 0]
    c = m.get('confirmed', {})
    ok = c.get('demonstration_passes_on_clean_tree') and c.get('demonstration_fails_with_change') and c.get('existing_suite_passes_with_change')
    rows.append((m['id'], m['breaks_property'], title, caught, missed, ok, m.get('follow_up', [])))
out = []
out.append('# Seeded changes\n')
out.append('Each directory holds one source change to AE9RB/basic-lang written by an independent sub-agent that saw only the property text and a scratch worktree (nothing of /verif). '
           'Every change compiles, passes the repository\'s own 95 tests, and breaks the named property only under a specific condition (see `notesN.md`). '
           'Files: `patch.diff` (apply with `git -C /repo apply`, undo with `git -C /repo checkout -- .`), `demoN.bas` / `expectedN.txt` / `wrongN.txt` / `demoN_test.rs` (the author\'s demonstration), `notesN.md`, '
           '`meta.json` (what was confirmed and which quick checks were run against it). None of these changes is committed in /repo.\n')
out.append('Confirmation procedure (`tools_seed.sh`): in the author\'s worktree the demonstration test passes on the clean tree, fails with the patch, and `cargo test --offline` (existing suite) passes with the patch; '
           'then the patch is applied to /repo, the listed quick checks are run (`tools_mut.sh`), and /repo is reverted.\n')
out.append('| id | property | change | confirmed | quick checks that report a VIOLATION | run but silent | follow-up |')
out.append('|---|---|---|---|---|---|---|')
n_ok = 0
for (i, p, t, caught, missed, ok, fu) in rows:
    if caught:
        n_ok += 1
    out.append('| %s | %s | %s | %s | %s | %s | %s |' % (i, p, t.replace('|', '\\|')[:160], 'yes' if ok else 'NO', ', '.join(caught) or '—', ', '.join(missed) or '—', ' '.join(fu).replace('|', '\\|') or ''))
out.append('\n%d changes, %d reported by at least one quick check (final state; the follow-up column says where a check had to be strengthened first).\n' % (len(rows), n_ok))
open('/verif/seeded/README.md', 'w').write('\n'.join(out))
print(len(rows), 'rows;', n_ok, 'caught')
