#!/usr/bin/env python3
# tools_seed_note.py <seed-id> <text> — appends a follow-up note to seeded/<seed-id>/meta.json
import json, sys
p = '/verif/seeded/%s/meta.json' % sys.argv[1]
m = json.load(open(p))
m.setdefault('follow_up', []).append(sys.argv[2])
json.dump(m, open(p, 'w'), indent=1)
print('ok')
