//! Runs the sub-checks of one property: generated cases (proptest-driven byte tapes, with
//! shrinking) and enumerated cases (bounded-exhaustive item streams), on all cores; collects
//! counters, writes evidence and replay files, handles known findings and the wedge watchdog.

use crate::tape::{hash_str, hex, splitmix, unhex, Tape};
use proptest::prelude::*;
use proptest::test_runner::{Config, RngSeed, TestCaseError, TestError, TestRunner};
use serde_json::{json, Value as J};
use std::cell::{Cell, RefCell};
use std::collections::{BTreeMap, HashSet};
use std::sync::{Arc, Mutex};
use std::time::{Duration, Instant};

#[derive(Clone)]
pub struct Ctx {
    /// Render the case text even when it passes (samples).
    pub render: bool,
    /// Replay mode: known findings are not tolerated, everything is reported.
    pub strict: bool,
    pub thorough: bool,
}

pub enum V {
    Pass { nontrivial: bool, key: u64 },
    Discard(&'static str),
    Fail { clause: String, sig: String, detail: String },
}

pub struct Outcome {
    pub v: V,
    pub labels: Vec<&'static str>,
    pub case: Option<String>,
}

impl Outcome {
    pub fn pass(nontrivial: bool, key: u64) -> Outcome {
        Outcome { v: V::Pass { nontrivial, key }, labels: vec![], case: None }
    }
    pub fn discard(why: &'static str) -> Outcome {
        Outcome { v: V::Discard(why), labels: vec![], case: None }
    }
    pub fn fail(clause: &str, detail: String, case: String) -> Outcome {
        Outcome {
            v: V::Fail { clause: clause.to_string(), sig: clause.to_string(), detail },
            labels: vec![],
            case: Some(case),
        }
    }
    pub fn fail_sig(clause: &str, sig: String, detail: String, case: String) -> Outcome {
        Outcome { v: V::Fail { clause: clause.to_string(), sig, detail }, labels: vec![], case: Some(case) }
    }
    pub fn with_labels(mut self, l: Vec<&'static str>) -> Outcome {
        self.labels = l;
        self
    }
    pub fn with_case(mut self, c: String) -> Outcome {
        self.case = Some(c);
        self
    }
    pub fn is_fail(&self) -> bool {
        matches!(self.v, V::Fail { .. })
    }
}

pub type TapeFn = fn(&mut Tape, &Ctx) -> Outcome;
pub type ItemFn = fn(&str, &Ctx) -> Outcome;
/// Enumerator: calls `emit` for every item of part `part` of `parts` (thorough flag given).
pub type EnumFn = fn(part: usize, parts: usize, thorough: bool, emit: &mut dyn FnMut(&str));

pub enum Kind {
    Tape { f: TapeFn, quick: usize, thorough: usize, max_len: usize },
    Enum { gen: EnumFn, f: ItemFn, exhaustive: bool },
}

pub struct Sub {
    pub name: &'static str,
    pub kind: Kind,
    pub wedge_secs: u64,
}

impl Sub {
    pub fn tape(name: &'static str, f: TapeFn, quick: usize, thorough: usize, max_len: usize) -> Sub {
        Sub { name, kind: Kind::Tape { f, quick, thorough, max_len }, wedge_secs: 20 }
    }
    pub fn items(name: &'static str, gen: EnumFn, f: ItemFn, exhaustive: bool) -> Sub {
        Sub { name, kind: Kind::Enum { gen, f, exhaustive }, wedge_secs: 20 }
    }
    pub fn wedge(mut self, s: u64) -> Sub {
        self.wedge_secs = s;
        self
    }
}

pub struct Property {
    pub id: &'static str,
    pub rule: &'static str,
    pub assumptions: Vec<&'static str>,
    pub subs: Vec<Sub>,
}

#[derive(Default)]
struct Stats {
    evaluations: u64,
    discarded: u64,
    excluded_known: u64,
    nontrivial: HashSet<u64>,
    labels: BTreeMap<String, u64>,
    discards: BTreeMap<String, u64>,
    samples: Vec<String>,
    failures: Vec<Failure>,
}

#[derive(Clone)]
struct Failure {
    sub: String,
    clause: String,
    sig: String,
    detail: String,
    case: String,
    tape: Option<Vec<u8>>,
    item: Option<String>,
}

impl Stats {
    fn merge(&mut self, o: Stats) {
        self.evaluations += o.evaluations;
        self.discarded += o.discarded;
        self.excluded_known += o.excluded_known;
        self.nontrivial.extend(o.nontrivial);
        for (k, v) in o.labels {
            *self.labels.entry(k).or_insert(0) += v;
        }
        for (k, v) in o.discards {
            *self.discards.entry(k).or_insert(0) += v;
        }
        for s in o.samples {
            if self.samples.len() < 8 {
                self.samples.push(s);
            }
        }
        self.failures.extend(o.failures);
    }
    fn record(&mut self, o: &Outcome, known: &Known) -> Rec {
        match &o.v {
            V::Pass { nontrivial, key } => {
                self.evaluations += 1;
                if *nontrivial {
                    self.nontrivial.insert(*key);
                }
                for l in &o.labels {
                    *self.labels.entry(l.to_string()).or_insert(0) += 1;
                }
                Rec::Ok
            }
            V::Discard(why) => {
                self.discarded += 1;
                *self.discards.entry(why.to_string()).or_insert(0) += 1;
                Rec::Ok
            }
            V::Fail { clause, sig, .. } => {
                self.evaluations += 1;
                if known.is_open(sig) {
                    self.excluded_known += 1;
                    Rec::Ok
                } else {
                    Rec::Fail(clause.clone())
                }
            }
        }
    }
}

enum Rec {
    Ok,
    Fail(String),
}

// ---------------------------------------------------------------- known findings

#[derive(Clone, Default)]
pub struct Known {
    open: Vec<(String, String, J)>, // (sig, what, entry)
}

impl Known {
    fn load(root: &str, property: &str) -> Known {
        let mut k = Known::default();
        let path = format!("{}/known_findings.json", root);
        if let Ok(text) = std::fs::read_to_string(&path) {
            if let Ok(J::Object(o)) = serde_json::from_str::<J>(&text) {
                if let Some(J::Array(a)) = o.get("findings") {
                    for e in a {
                        if e["property"] == property && e["status"] == "open" {
                            k.open.push((
                                e["signature"].as_str().unwrap_or("").to_string(),
                                e["what"].as_str().unwrap_or("").to_string(),
                                e.clone(),
                            ));
                        }
                    }
                }
            }
        }
        k
    }
    fn is_open(&self, sig: &str) -> bool {
        self.open.iter().any(|(s, _, _)| s == sig)
    }
}

// ---------------------------------------------------------------- watchdog

struct Slot {
    note: Option<String>,
    start: Option<Instant>,
    sub: &'static str,
    tape: Option<Vec<u8>>,
    item: Option<String>,
    limit: u64,
    /// kernel thread id of the worker (for its CPU clock)
    tid: Option<u32>,
}

/// utime + stime of a thread (or of a whole process when `task` is None) in clock ticks (100 Hz).
fn cpu_ticks(pid: &str, task: Option<u32>) -> Option<u64> {
    let path = match task {
        Some(t) => format!("/proc/{}/task/{}/stat", pid, t),
        None => format!("/proc/{}/stat", pid),
    };
    let s = std::fs::read_to_string(path).ok()?;
    let rest = s.rsplit_once(')')?.1;
    let f: Vec<&str> = rest.split_whitespace().collect();
    Some(f.get(11)?.parse::<u64>().ok()? + f.get(12)?.parse::<u64>().ok()?)
}

fn own_tid() -> Option<u32> {
    let l = std::fs::read_link("/proc/thread-self").ok()?;
    l.file_name()?.to_str()?.parse().ok()
}

/// How much longer than the CPU limit a case may take on the wall clock before it counts as
/// blocked (a loaded machine slows a case down without it being wedged).
const WALL_FACTOR: u64 = 15;

static SLOTS: Mutex<Vec<Arc<Mutex<Slot>>>> = Mutex::new(Vec::new());

thread_local! {
    static CURRENT: RefCell<Option<Arc<Mutex<Slot>>>> = RefCell::new(None);
}

/// Lets a check describe the case it is about to execute, so that a wedge report shows it.
pub fn note_case(s: &str) {
    CURRENT.with(|c| {
        if let Some(slot) = c.borrow().as_ref() {
            slot.lock().unwrap().note = Some(s.to_string());
        }
    });
}

fn new_slot(sub: &'static str, limit: u64) -> Arc<Mutex<Slot>> {
    let s = Arc::new(Mutex::new(Slot { note: None, start: None, sub, tape: None, item: None, limit, tid: own_tid() }));
    SLOTS.lock().unwrap().push(s.clone());
    CURRENT.with(|c| *c.borrow_mut() = Some(s.clone()));
    s
}

fn start_watchdog(root: String, property: &'static str, tier: String, seed: u64) {
    std::thread::spawn(move || {
      // per slot: the case (identified by its start instant) and the thread's CPU ticks when first seen
      let mut seen: Vec<Option<(Instant, u64)>> = Vec::new();
      loop {
        std::thread::sleep(Duration::from_millis(300));
        let slots: Vec<Arc<Mutex<Slot>>> = SLOTS.lock().unwrap().clone();
        seen.resize(slots.len(), None);
        for (si, s) in slots.into_iter().enumerate() {
            let g = s.lock().unwrap();
            if let Some(st) = g.start {
                // The limit is on CPU time consumed by the case (independent of machine load);
                // the wall clock only catches a case that blocks without computing.
                let now_ticks = g.tid.and_then(|t| cpu_ticks("self", Some(t)));
                let first = match seen[si] {
                    Some((i, c)) if i == st => c,
                    _ => {
                        let c = now_ticks.unwrap_or(0);
                        seen[si] = Some((st, c));
                        c
                    }
                };
                let wall = st.elapsed();
                let over = match now_ticks {
                    Some(n) => n.saturating_sub(first) / 100 >= g.limit || wall > Duration::from_secs(g.limit * WALL_FACTOR),
                    None => wall > Duration::from_secs(g.limit * 3),
                };
                if wall > Duration::from_secs(g.limit) && over {
                    // A case did not return. Save it and stop the process: the thread cannot be
                    // interrupted in-process.
                    let path = format!("{}/replays/{}_{}_wedge.json", root, property, g.sub);
                    let _ = std::fs::create_dir_all(format!("{}/replays", root));
                    let mut o = json!({"property": property, "check": g.sub, "clause": "wedge", "seed": seed});
                    if let Some(t) = &g.tape {
                        o["tape_hex"] = json!(hex(t));
                    }
                    if let Some(i) = &g.item {
                        o["item"] = json!(i);
                    }
                    if let Some(n) = &g.note {
                        o["case"] = json!(n);
                    }
                    let _ = std::fs::write(&path, serde_json::to_string_pretty(&o).unwrap());
                    println!("WEDGE property={} check={} no return within {} s of CPU time ({:.0} s wall), case saved to {}", property, g.sub, g.limit, wall.as_secs_f64(), path);
                    // Confirm in a fresh process with a 30 s limit.
                    let confirmed = confirm_wedge(&path, property);
                    let ev = json!({
                        "property_id": property, "tier": tier, "seed": seed, "level": "exploration",
                        "coverage": {"evaluations": 1, "distinct_nontrivial": 0, "rule": "run aborted: a case did not return (wedge)", "samples": [o]},
                        "wall_s": 0.0, "violations": if confirmed && property == "C03" {1} else {0}
                    });
                    let _ = std::fs::create_dir_all(format!("{}/evidence", root));
                    let _ = std::fs::write(format!("{}/evidence/{}.json", root, property), serde_json::to_string_pretty(&ev).unwrap());
                    if confirmed && property == "C03" {
                        println!("VIOLATION property={} replay={}", property, path);
                        std::process::exit(1);
                    }
                    println!("INCONCLUSIVE property={} (wedge {}confirmed; wedges are decided by C03)", property, if confirmed { "" } else { "not " });
                    std::process::exit(2);
                }
            }
        }
      }
    });
}

fn confirm_wedge(path: &str, property: &str) -> bool {
    let exe = match std::env::current_exe() {
        Ok(e) => e,
        Err(_) => return false,
    };
    let mut child = match std::process::Command::new(exe)
        .arg(property)
        .arg("--replay")
        .arg(path)
        .env("VERIF_NO_WATCHDOG", "1")
        .stdout(std::process::Stdio::null())
        .spawn()
    {
        Ok(c) => c,
        Err(_) => return false,
    };
    let t0 = Instant::now();
    let pid = child.id().to_string();
    loop {
        match child.try_wait() {
            Ok(Some(_)) => return false,
            Ok(None) => {
                let cpu = cpu_ticks(&pid, None).map(|t| t / 100);
                let over = match cpu {
                    Some(c) => c >= 30 || t0.elapsed() > Duration::from_secs(30 * WALL_FACTOR),
                    None => t0.elapsed() > Duration::from_secs(90),
                };
                if over {
                    let _ = child.kill();
                    let _ = child.wait();
                    return true;
                }
                std::thread::sleep(Duration::from_millis(100));
            }
            Err(_) => return false,
        }
    }
}

// ---------------------------------------------------------------- running

fn n_threads() -> usize {
    std::env::var("VERIF_THREADS")
        .ok()
        .and_then(|s| s.parse().ok())
        .unwrap_or_else(|| std::thread::available_parallelism().map(|n| n.get()).unwrap_or(8).min(16))
}

fn run_tape_sub(
    sub_name: &'static str,
    f: TapeFn,
    cases: usize,
    max_len: usize,
    seed: u64,
    ctx: &Ctx,
    known: &Known,
    wedge: u64,
) -> Stats {
    let threads = n_threads().min(cases.max(1));
    let per = (cases + threads - 1) / threads;
    let mut handles = vec![];
    for t in 0..threads {
        let ctx = ctx.clone();
        let known = known.clone();
        let mut s = seed ^ hash_str(sub_name) ^ ((t as u64) << 48);
        let tseed = splitmix(&mut s);
        let h = std::thread::Builder::new()
            .stack_size(64 << 20)
            .spawn(move || {
                let slot = new_slot(sub_name, wedge);
                let stats = RefCell::new(Stats::default());
                let failed: RefCell<Option<String>> = RefCell::new(None);
                let idx = Cell::new(0usize);
                let mut runner = TestRunner::new(Config {
                    cases: per as u32,
                    failure_persistence: None,
                    rng_seed: RngSeed::Fixed(tseed),
                    max_shrink_iters: 4000,
                    // a failing run must end too: shrinking stops after 40 s per worker (cases of
                    // the long-running sub-checks take seconds each)
                    max_shrink_time: 40_000,
                    max_global_rejects: 1 << 30,
                    ..Config::default()
                });
                let strat = proptest::collection::vec(any::<u8>(), 0..max_len.max(1));
                let sample_every = (per / 2).max(1);
                let res = runner.run(&strat, |tape| {
                    {
                        let mut g = slot.lock().unwrap();
                        g.start = Some(Instant::now());
                        g.tape = Some(tape.clone());
                    }
                    let shrinking = failed.borrow().is_some();
                    let i = idx.get();
                    let mut c = ctx.clone();
                    c.render = !shrinking && t == 0 && (i < 2 || i % sample_every == 0);
                    let o = f(&mut Tape::new(&tape), &c);
                    slot.lock().unwrap().start = None;
                    if shrinking {
                        // Keep only failures of the same clause while shrinking.
                        if let V::Fail { clause, sig, .. } = &o.v {
                            if Some(clause) == failed.borrow().as_ref() && !known.is_open(sig) {
                                return Err(TestCaseError::fail(clause.clone()));
                            }
                        }
                        return Ok(());
                    }
                    idx.set(i + 1);
                    let mut st = stats.borrow_mut();
                    if c.render && st.samples.len() < 4 {
                        if let (Some(cs), V::Pass { .. }) = (&o.case, &o.v) {
                            st.samples.push(cs.clone());
                        }
                    }
                    match st.record(&o, &known) {
                        Rec::Ok => Ok(()),
                        Rec::Fail(clause) => {
                            *failed.borrow_mut() = Some(clause.clone());
                            Err(TestCaseError::fail(clause))
                        }
                    }
                });
                let mut st = stats.into_inner();
                if let Err(TestError::Fail(_, tape)) = res {
                    let mut c = ctx.clone();
                    c.render = true;
                    let o = f(&mut Tape::new(&tape), &c);
                    if let V::Fail { clause, sig, detail } = o.v {
                        st.failures.push(Failure {
                            sub: sub_name.to_string(),
                            clause,
                            sig,
                            detail,
                            case: o.case.unwrap_or_default(),
                            tape: Some(tape),
                            item: None,
                        });
                    } else {
                        // Flaky: the minimal tape no longer fails. Report it as such.
                        st.failures.push(Failure {
                            sub: sub_name.to_string(),
                            clause: failed.borrow().clone().unwrap_or_default(),
                            sig: "flaky".into(),
                            detail: "failure did not reproduce on the shrunk tape".into(),
                            case: String::new(),
                            tape: Some(tape),
                            item: None,
                        });
                    }
                } else if let Err(TestError::Abort(r)) = res {
                    eprintln!("proptest aborted in {}: {}", sub_name, r);
                }
                st
            })
            .unwrap();
        handles.push(h);
    }
    let mut all = Stats::default();
    for h in handles {
        match h.join() {
            Ok(s) => all.merge(s),
            Err(_) => all.failures.push(Failure {
                sub: sub_name.to_string(),
                clause: "harness-thread-panicked".into(),
                sig: "harness".into(),
                detail: "a worker thread of the harness panicked outside catch_unwind".into(),
                case: String::new(),
                tape: None,
                item: None,
            }),
        }
    }
    all
}

fn run_enum_sub(sub_name: &'static str, gen: EnumFn, f: ItemFn, ctx: &Ctx, known: &Known, wedge: u64) -> Stats {
    let threads = n_threads();
    let parts = threads * 4;
    let next = Arc::new(Mutex::new(0usize));
    let mut handles = vec![];
    for t in 0..threads {
        let ctx = ctx.clone();
        let known = known.clone();
        let next = next.clone();
        let h = std::thread::Builder::new()
            .stack_size(64 << 20)
            .spawn(move || {
                let slot = new_slot(sub_name, wedge);
                let mut st = Stats::default();
                loop {
                    let part = {
                        let mut g = next.lock().unwrap();
                        let p = *g;
                        *g += 1;
                        p
                    };
                    if part >= parts {
                        break;
                    }
                    let mut n = 0usize;
                    let mut emit = |item: &str| {
                        {
                            let mut g = slot.lock().unwrap();
                            g.start = Some(Instant::now());
                            g.item = Some(item.to_string());
                        }
                        let mut c = ctx.clone();
                        c.render = t == 0 && part == 0 && (n < 2 || n % 997 == 0);
                        n += 1;
                        let o = f(item, &c);
                        slot.lock().unwrap().start = None;
                        if c.render && st.samples.len() < 4 {
                            if let (Some(cs), V::Pass { .. }) = (&o.case, &o.v) {
                                st.samples.push(cs.clone());
                            }
                        }
                        if let Rec::Fail(_) = st.record(&o, &known) {
                            if let V::Fail { clause, sig, detail } = o.v {
                                // Keep the first (shortest-so-far) failure per clause.
                                let pos = st.failures.iter().position(|x| x.clause == clause);
                                let fl = Failure {
                                    sub: sub_name.to_string(),
                                    clause,
                                    sig,
                                    detail,
                                    case: o.case.unwrap_or_else(|| item.to_string()),
                                    tape: None,
                                    item: Some(item.to_string()),
                                };
                                match pos {
                                    None => st.failures.push(fl),
                                    Some(p) => {
                                        if st.failures[p].item.as_ref().map(|s| s.len()).unwrap_or(0) > item.len() {
                                            st.failures[p] = fl;
                                        }
                                    }
                                }
                            }
                        }
                    };
                    gen(part, parts, ctx.thorough, &mut emit);
                }
                st
            })
            .unwrap();
        handles.push(h);
    }
    let mut all = Stats::default();
    for h in handles {
        if let Ok(s) = h.join() {
            all.merge(s)
        } else {
            all.failures.push(Failure {
                sub: sub_name.to_string(),
                clause: "harness-thread-panicked".into(),
                sig: "harness".into(),
                detail: "a worker thread of the harness panicked outside catch_unwind".into(),
                case: String::new(),
                tape: None,
                item: None,
            });
        }
    }
    all
}

fn replay_one(p: &Property, j: &J, ctx: &Ctx) -> Option<Outcome> {
    let check = j["check"].as_str().unwrap_or("");
    let sub = p.subs.iter().find(|s| s.name == check)?;
    match &sub.kind {
        Kind::Tape { f, .. } => {
            let tape = unhex(j["tape_hex"].as_str().unwrap_or(""));
            Some(f(&mut Tape::new(&tape), ctx))
        }
        Kind::Enum { f, .. } => {
            let item = j["item"].as_str().unwrap_or("");
            Some(f(item, ctx))
        }
    }
}

fn write_replay(root: &str, p: &Property, fl: &Failure, seed: u64, n: usize) -> String {
    let _ = std::fs::create_dir_all(format!("{}/replays", root));
    let path = format!("{}/replays/{}_{}_{}.json", root, p.id, fl.sub, n);
    let mut o = json!({
        "property": p.id, "check": fl.sub, "clause": fl.clause, "signature": fl.sig,
        "seed": seed, "detail": fl.detail, "case": fl.case,
    });
    if let Some(t) = &fl.tape {
        o["tape_hex"] = json!(hex(t));
    }
    if let Some(i) = &fl.item {
        o["item"] = json!(i);
    }
    let _ = std::fs::write(&path, serde_json::to_string_pretty(&o).unwrap());
    path
}

pub fn main_for(p: Property, args: &[String]) -> i32 {
    let root = std::env::var("VERIF_ROOT").unwrap_or_else(|_| {
        std::env::current_dir().map(|d| d.to_string_lossy().to_string()).unwrap_or_else(|_| "/verif".into())
    });
    let seed: u64 = std::env::var("VERIF_SEED").ok().and_then(|s| s.parse::<i64>().ok()).map(|v| v as u64).unwrap_or(1);
    let known = Known::load(&root, p.id);
    // -------- replay mode
    if args.len() >= 2 && args[0] == "--replay" {
        let text = match std::fs::read_to_string(&args[1]) {
            Ok(t) => t,
            Err(e) => {
                eprintln!("cannot read {}: {}", args[1], e);
                return 2;
            }
        };
        let j: J = match serde_json::from_str(&text) {
            Ok(j) => j,
            Err(e) => {
                eprintln!("bad replay file: {}", e);
                return 2;
            }
        };
        let ctx = Ctx { render: true, strict: true, thorough: false };
        if std::env::var("VERIF_NO_WATCHDOG").is_err() {
            start_watchdog(root.clone(), p.id, "replay".into(), seed);
        }
        let slot = new_slot("replay", 60);
        {
            let mut g = slot.lock().unwrap();
            if std::env::var("VERIF_NO_WATCHDOG").is_err() {
                g.start = Some(Instant::now());
            }
            g.item = j["item"].as_str().map(|s| s.to_string());
            g.tape = j["tape_hex"].as_str().map(unhex);
        }
        return match replay_one(&p, &j, &ctx) {
            None => {
                eprintln!("unknown check {:?} for {}", j["check"], p.id);
                2
            }
            Some(o) => {
                if let Some(c) = &o.case {
                    println!("case:\n{}", c);
                }
                match o.v {
                    V::Fail { clause, detail, .. } => {
                        println!("clause: {}\n{}", clause, detail);
                        println!("VIOLATION property={} replay={}", p.id, args[1]);
                        1
                    }
                    V::Discard(w) => {
                        println!("replay: discarded ({})", w);
                        0
                    }
                    V::Pass { .. } => {
                        println!("replay: property held");
                        0
                    }
                }
            }
        };
    }
    let tier = args.first().map(|s| s.as_str()).unwrap_or("quick").to_string();
    let thorough = tier == "thorough";
    let t0 = Instant::now();
    start_watchdog(root.clone(), p.id, tier.clone(), seed);
    let ctx = Ctx { render: false, strict: false, thorough };
    let mut total = Stats::default();
    let mut per_sub: Vec<J> = vec![];
    let mut exhaustive_subspaces: Vec<J> = vec![];
    let mut violations: Vec<Failure> = vec![];

    // -------- known findings: run each stored repro, print KNOWN-FINDING
    let strict = Ctx { render: true, strict: true, thorough };
    for (sig, what, e) in &known.open {
        match replay_one(&p, &e["repro"], &strict) {
            Some(o) => match o.v {
                V::Fail { sig: s2, .. } if &s2 == sig => {
                    println!("KNOWN-FINDING: property={} {}", p.id, what);
                }
                V::Fail { sig: s2, clause, .. } => {
                    println!("KNOWN-FINDING: property={} {} (repro now fails as {} / {})", p.id, what, clause, s2);
                }
                _ => println!("note: known finding {} no longer reproduces ({})", e["id"], what),
            },
            None => println!("note: known finding {} has no runnable repro", e["id"]),
        }
    }
    // -------- regressions: saved minimal reproductions (fixed findings, seeded mutants' cases)
    let mut regress_n = 0;
    let rdir = format!("{}/regressions/{}", root, p.id);
    if let Ok(rd) = std::fs::read_dir(&rdir) {
        let mut files: Vec<_> = rd.filter_map(|e| e.ok()).map(|e| e.path()).filter(|p| p.extension().map(|x| x == "json").unwrap_or(false)).collect();
        files.sort();
        let slot = new_slot("regressions", 60);
        for fpath in files {
            if let Ok(text) = std::fs::read_to_string(&fpath) {
                if let Ok(j) = serde_json::from_str::<J>(&text) {
                    {
                        let mut g = slot.lock().unwrap();
                        g.start = Some(Instant::now());
                        g.item = j["item"].as_str().map(|s| s.to_string());
                        g.tape = j["tape_hex"].as_str().map(unhex);
                        g.sub = "regressions";
                    }
                    let o = replay_one(&p, &j, &strict);
                    slot.lock().unwrap().start = None;
                    if let Some(o) = o {
                        regress_n += 1;
                        total.evaluations += 1;
                        if let V::Fail { clause, sig, detail } = o.v {
                            if !known.is_open(&sig) {
                                violations.push(Failure {
                                    sub: j["check"].as_str().unwrap_or("").to_string(),
                                    clause,
                                    sig,
                                    detail: format!("regression file {}: {}", fpath.display(), detail),
                                    case: o.case.unwrap_or_default(),
                                    tape: j["tape_hex"].as_str().map(unhex),
                                    item: j["item"].as_str().map(|s| s.to_string()),
                                });
                            }
                        }
                    }
                }
            }
        }
    }
    // -------- the sub-checks
    let only = std::env::var("VERIF_ONLY").ok();
    for sub in &p.subs {
        if let Some(o) = &only {
            if !sub.name.contains(o.as_str()) {
                continue;
            }
        }
        let ts = Instant::now();
        let st = match &sub.kind {
            Kind::Tape { f, quick, thorough: th, max_len } => {
                let mut cases = if thorough { *th } else { *quick };
                if let Ok(s) = std::env::var("VERIF_SCALE") {
                    if let Ok(x) = s.parse::<f64>() {
                        cases = ((cases as f64) * x).max(1.0) as usize;
                    }
                }
                run_tape_sub(sub.name, *f, cases, *max_len, seed, &ctx, &known, sub.wedge_secs)
            }
            Kind::Enum { gen, f, exhaustive } => {
                let st = run_enum_sub(sub.name, *gen, *f, &ctx, &known, sub.wedge_secs);
                if *exhaustive {
                    exhaustive_subspaces.push(json!({"name": sub.name, "size": st.evaluations + st.discarded}));
                }
                st
            }
        };
        per_sub.push(json!({
            "check": sub.name, "evaluations": st.evaluations, "distinct_nontrivial": st.nontrivial.len(),
            "discarded": st.discarded, "excluded_known": st.excluded_known, "failures": st.failures.len(),
            "wall_s": ts.elapsed().as_secs_f64(),
            "kind": match &sub.kind { Kind::Tape{..} => "generated (proptest byte tape)", Kind::Enum{exhaustive: true, ..} => "enumerated (exhaustive)", Kind::Enum{..} => "enumerated" },
        }));
        eprintln!(
            "[{}] {}: {} evaluations, {} distinct non-trivial, {} discarded, {} excluded-known, {} failures, {:.1}s",
            p.id, sub.name, st.evaluations, st.nontrivial.len(), st.discarded, st.excluded_known, st.failures.len(), ts.elapsed().as_secs_f64()
        );
        violations.extend(st.failures.iter().cloned());
        // Prefix nontrivial keys with the sub name hash so that distinctness is per sub-check.
        let h = hash_str(sub.name);
        let mut st = st;
        st.nontrivial = st.nontrivial.into_iter().map(|k| k ^ h).collect();
        st.samples = st.samples.into_iter().map(|s| format!("[{}] {}", sub.name, s)).collect();
        st.failures.clear();
        total.merge(st);
    }
    // -------- report
    // Dedupe violations by (sub, clause): keep the smallest case.
    let mut dedup: Vec<Failure> = vec![];
    for v in violations {
        if let Some(d) = dedup.iter_mut().find(|d| d.sub == v.sub && d.clause == v.clause) {
            if v.case.len() < d.case.len() && !v.case.is_empty() {
                *d = v;
            }
        } else {
            dedup.push(v);
        }
    }
    let mut vio_json = vec![];
    for (n, v) in dedup.iter().enumerate() {
        let path = write_replay(&root, &p, v, seed, n);
        println!("--- {} / {} : {}\n{}\n{}", p.id, v.sub, v.clause, v.case, v.detail);
        println!("VIOLATION property={} replay={}", p.id, path);
        vio_json.push(json!({"check": v.sub, "clause": v.clause, "signature": v.sig, "replay": path, "detail": v.detail}));
    }
    let mut samples: Vec<J> = total.samples.iter().take(8).map(|s| json!(s)).collect();
    if samples.is_empty() {
        samples.push(json!("(no passing sample rendered in this run)"));
    }
    let all_exhaustive = !p.subs.is_empty() && p.subs.iter().all(|s| matches!(s.kind, Kind::Enum { exhaustive: true, .. }));
    let ev = json!({
        "property_id": p.id,
        "tier": if thorough { "thorough" } else { "quick" },
        "seed": seed as i64,
        "level": "exploration",
        "coverage": {
            "evaluations": total.evaluations,
            "distinct_nontrivial": total.nontrivial.len(),
            "rule": p.rule,
            "samples": samples,
            "exhaustive": all_exhaustive,
            "exhaustive_subspaces": exhaustive_subspaces,
            "discarded": total.discarded,
            "discard_reasons": total.discards,
            "excluded_known": total.excluded_known,
            "labels": total.labels,
            "sub_checks": per_sub,
            "regressions_replayed": regress_n,
            "known_findings_open": known.open.iter().map(|(_, w, e)| json!({"id": e["id"], "what": w})).collect::<Vec<_>>(),
            "threads": n_threads(),
            "tools": {"proptest": "1.11", "harness_profile": "release, debug-assertions off, overflow-checks off, panic=unwind"},
        },
        "assumptions": p.assumptions,
        "wall_s": t0.elapsed().as_secs_f64(),
        "violations": dedup.len(),
        "violation_details": vio_json,
    });
    let _ = std::fs::create_dir_all(format!("{}/evidence", root));
    let evp = format!("{}/evidence/{}.json", root, p.id);
    if let Err(e) = std::fs::write(&evp, serde_json::to_string_pretty(&ev).unwrap()) {
        eprintln!("cannot write {}: {}", evp, e);
        return 2;
    }
    println!(
        "{} {}: {} evaluations, {} distinct non-trivial, {} violations, {:.1}s",
        p.id,
        tier,
        total.evaluations,
        total.nontrivial.len(),
        dedup.len(),
        t0.elapsed().as_secs_f64()
    );
    if dedup.is_empty() {
        0
    } else {
        1
    }
}
