//! Generator for the well-defined program fragment (DESIGN.md 6.0): structurally built,
//! terminating programs whose every construct has a manual-backed meaning.

use crate::bast::*;
use crate::expr::*;
use crate::sem::{Bin, Ty};
use crate::tape::Tape;

#[derive(Clone, Debug)]
pub struct GenOpts {
    pub size: usize,
    pub input: bool,
    pub data: bool,
    pub fns: bool,
    pub arrays: bool,
    pub errors: bool,
    pub stop: bool,
    pub layout_dep: bool,
    pub tron: bool,
    pub early_exit: bool,
    pub deftype: bool,
    pub fuel_loops: bool,
    /// END / STOP / early RETURN statements inside the program body
    pub allow_end: bool,
}

impl GenOpts {
    pub fn full() -> GenOpts {
        GenOpts { size: 30, input: true, data: true, fns: true, arrays: true, errors: true, stop: false, layout_dep: true, tron: true, early_exit: true, deftype: true, fuel_loops: true, allow_end: true }
    }
    /// No errors, no column-dependent output, no TRON: for differential checks.
    pub fn plain() -> GenOpts {
        GenOpts { size: 24, input: true, data: true, fns: true, arrays: true, errors: false, stop: false, layout_dep: false, tron: false, early_exit: true, deftype: false, fuel_loops: true, allow_end: true }
    }
}

#[derive(Clone, Debug)]
pub struct Generated {
    pub prog: Program,
    pub replies: Vec<String>,
    /// expressions whose final values are compared after the run (scalars and array elements)
    pub probes: Vec<E>,
}

const NUM_VARS: &[&str] = &["A", "B", "C", "A%", "B%", "A#", "B!", "X", "Y%", "Z#"];
const STR_VARS: &[&str] = &["A$", "B$", "S$"];
const LOOP_VARS: &[&str] = &["I", "J%", "K", "L#", "M%"];
const WHILE_VARS: &[&str] = &["W1%", "W2", "W3%"];
const STR_POOL: &[&str] = &["", "A", "HI", "é", "x y", "BASIC", "日本", "0"];

pub fn sub_loop_vars(i: usize) -> Vec<String> {
    vec![format!("I{}", i + 1), format!("J{}%", i + 1), format!("K{}", i + 1)]
}

pub fn sub_while_vars(i: usize) -> Vec<String> {
    vec![format!("W{}%", i + 4), format!("W{}", i + 4), format!("V{}%", i + 4)]
}

struct Sub_ {
    label: u16,
}

struct FnInfo {
    name: Name,
    params: Vec<Ty>,
    ret_str: bool,
}

struct G<'a, 'b> {
    t: &'a mut Tape<'b>,
    o: GenOpts,
    lines: Vec<(u16, Vec<Stmt>)>,
    cur: Option<(u16, Vec<Stmt>)>,
    next_label: u16,
    subs: Vec<Sub_>,
    in_sub: Option<usize>,
    fns: Vec<FnInfo>,
    arrays: Vec<(Name, Vec<i16>)>,
    /// arrays the prologue declared with DIM (the others come into being at their first use)
    dimmed: Vec<Name>,
    loop_stack: Vec<Name>,
    while_depth: usize,
    budget: isize,
    input_shape: Vec<Ty>,
    n_inputs: usize,
    fuel_used: usize,
    deftypes: [Ty; 26],
    error_planted: bool,
}

fn lit(n: i64) -> E {
    if n < 0 {
        E::Neg(Box::new(E::Lit(format!("{}", -n))))
    } else {
        E::Lit(format!("{}", n))
    }
}

fn bin(op: Bin, a: E, b: E) -> E {
    E::Bin(op, Box::new(a), Box::new(b))
}

impl<'a, 'b> G<'a, 'b> {
    fn label(&mut self) -> u16 {
        self.next_label += 1;
        self.next_label
    }

    fn flush(&mut self) {
        if let Some(l) = self.cur.take() {
            self.lines.push(l);
        }
    }

    fn start_line(&mut self, label: u16) {
        self.flush();
        self.cur = Some((label, vec![]));
    }

    /// Pushes onto the line that was just started (a jump target); closes it after IF/REM.
    fn push_cur(&mut self, s: Stmt) {
        let ends_line = matches!(s, Stmt::If { .. } | Stmt::Rem { .. });
        self.cur.as_mut().unwrap().1.push(s);
        if ends_line {
            self.flush();
        }
    }

    /// Adds a statement: appended to the open line (multi-statement line) or on a new line.
    fn emit(&mut self, s: Stmt) {
        let ends_line = matches!(s, Stmt::If { .. } | Stmt::Rem { .. });
        let join = self.t.chance(2, 5);
        match &mut self.cur {
            Some((_, v)) if join && v.len() < 5 && !v.is_empty() => v.push(s),
            Some((_, v)) if v.is_empty() => v.push(s),
            _ => {
                let l = self.label();
                self.start_line(l);
                self.cur.as_mut().unwrap().1.push(s);
            }
        }
        if ends_line {
            self.flush();
        }
        self.budget -= 1;
    }

    // ------------------------------------------------------------ expressions

    fn num_var(&mut self) -> Name {
        // loop variables are read, too
        if !self.loop_stack.is_empty() && self.t.chance(1, 3) {
            let i = self.t.below(self.loop_stack.len());
            return self.loop_stack[i].clone();
        }
        Name::new(self.t.pick_str(NUM_VARS))
    }

    fn str_var(&mut self) -> Name {
        Name::new(self.t.pick_str(STR_VARS))
    }

    fn small_index(&mut self, bound: i16) -> E {
        if !self.loop_stack.is_empty() && self.t.chance(1, 3) {
            // loop variables stay within 0..=6 by construction
            let i = self.t.below(self.loop_stack.len());
            let v = E::Var(self.loop_stack[i].clone());
            return if bound >= 6 { bin(Bin::And, v, E::Lit("7".into())) } else { bin(Bin::And, v, E::Lit("1".into())) };
        }
        lit(self.t.below((bound.min(6) + 1) as usize) as i64)
    }

    fn elem(&mut self, want_str: bool) -> Option<E> {
        let c: Vec<usize> = (0..self.arrays.len()).filter(|i| (self.arrays[*i].0.ty(&self.deftypes) == Ty::Str) == want_str).collect();
        if c.is_empty() {
            return None;
        }
        let i = c[self.t.below(c.len())];
        let (n, dims) = self.arrays[i].clone();
        let subs: Vec<E> = dims.iter().map(|d| self.small_index(*d)).collect();
        Some(E::Elem(n, subs))
    }

    fn num_leaf(&mut self) -> E {
        match self.t.weighted(&[5, 5, 2, 2]) {
            0 => lit(self.t.range(0, 12)),
            1 => E::Var(self.num_var()),
            2 => E::Lit(self.t.pick(&["2.5", ".25", "1.5", "0.5", "3", "10", "100", "7", "1E2", "2#", "3!", "4%", "&H10", "&7"]).to_string()),
            _ => {
                if self.o.arrays {
                    if let Some(e) = self.elem(false) {
                        return e;
                    }
                }
                lit(self.t.range(-5, 5))
            }
        }
    }

    pub fn num(&mut self, depth: usize) -> E {
        if depth == 0 || self.t.chance(1, 3) {
            return self.num_leaf();
        }
        match self.t.weighted(&[10, 2, 3, 3, 2, 2]) {
            0 => {
                let op = *self.t.pick(&[Bin::Add, Bin::Add, Bin::Sub, Bin::Sub, Bin::Mul, Bin::Div, Bin::IDiv, Bin::Mod, Bin::And, Bin::Or, Bin::Xor, Bin::Pow]);
                let l = self.num(depth - 1);
                let r = match op {
                    Bin::Div | Bin::IDiv | Bin::Mod => {
                        if self.t.chance(1, 12) {
                            self.num(depth - 1)
                        } else {
                            lit(*self.t.pick(&[2i64, 3, 4, 5, 7, -2]))
                        }
                    }
                    Bin::Pow => lit(self.t.range(0, 3)),
                    _ => self.num(depth - 1),
                };
                let l = if op == Bin::Pow { E::Call("CINT", vec![l]) } else { l };
                bin(op, l, r)
            }
            1 => E::Neg(Box::new(self.num(depth - 1))),
            2 => self.cond(depth - 1),
            3 => {
                let f = *self.t.pick(&["ABS", "SGN", "INT", "FIX", "CINT", "CSNG", "CDBL", "SQR"]);
                let a = self.num(depth - 1);
                let a = if f == "SQR" { E::Call("ABS", vec![a]) } else { a };
                E::Call(f, vec![a])
            }
            4 => match self.t.below(4) {
                0 => E::Call("LEN", vec![self.str(depth - 1)]),
                1 => E::Call("ASC", vec![bin(Bin::Add, self.str(depth - 1), E::Str("A".into()))]),
                2 => E::Call("VAL", vec![E::Str(self.t.pick(&["12", "3.5", "-4", "1E2", "7up", "", "&H1F"]).to_string())]),
                _ => E::Call("INSTR", vec![self.str(depth - 1), E::Str(self.t.pick(&["A", "I", "é", "x"]).to_string())]),
            },
            _ => {
                if self.o.fns && !self.fns.is_empty() {
                    let c: Vec<usize> = (0..self.fns.len()).filter(|i| !self.fns[*i].ret_str).collect();
                    if !c.is_empty() {
                        let i = c[self.t.below(c.len())];
                        return self.fn_call(i, depth);
                    }
                }
                E::Paren(Box::new(self.num(depth - 1)))
            }
        }
    }

    fn fn_call(&mut self, i: usize, depth: usize) -> E {
        let name = self.fns[i].name.clone();
        let ptys = self.fns[i].params.clone();
        let args = ptys.iter().map(|t| if *t == Ty::Str { self.str(depth.saturating_sub(1)) } else { self.num(depth.saturating_sub(1)) }).collect();
        E::Fn(name, args)
    }

    pub fn cond(&mut self, depth: usize) -> E {
        match self.t.weighted(&[8, 2, 2, 1, 2]) {
            4 => {
                // a bare number as the predicate: false is 0, everything else (fractions, values
                // beyond the Integer range) is true
                match self.t.below(4) {
                    0 => self.num(depth.min(1)),
                    1 => bin(Bin::Div, self.num_leaf(), lit(4)),
                    2 => E::Lit(self.t.pick(&["0.5", ".25", "40000", "1E10", "0", "2.5#", "0.999", "1D-9"]).to_string()),
                    _ => {
                        let v = self.num_var();
                        bin(Bin::Sub, bin(Bin::Div, E::Var(v.clone()), lit(2)), E::Call("INT", vec![bin(Bin::Div, E::Var(v), lit(2))]))
                    }
                }
            }
            0 => {
                let op = *self.t.pick(&[Bin::Eq, Bin::Ne, Bin::Lt, Bin::Le, Bin::Gt, Bin::Ge]);
                let l = self.num(depth.min(1));
                let r = self.num(depth.min(1));
                bin(op, l, r)
            }
            1 => {
                let op = *self.t.pick(&[Bin::Eq, Bin::Ne, Bin::Lt, Bin::Gt]);
                let l = self.str(depth.min(1));
                let r = self.str(depth.min(1));
                bin(op, l, r)
            }
            2 => {
                if depth == 0 {
                    return bin(Bin::Lt, self.num_leaf(), self.num_leaf());
                }
                let op = *self.t.pick(&[Bin::And, Bin::Or]);
                let l = self.cond(depth - 1);
                let r = self.cond(depth - 1);
                bin(op, l, r)
            }
            _ => E::Not(Box::new(self.cond(depth.saturating_sub(1)))),
        }
    }

    pub fn str(&mut self, depth: usize) -> E {
        if depth == 0 || self.t.chance(1, 3) {
            return match self.t.weighted(&[4, 4, 1]) {
                0 => E::Str(self.t.pick(STR_POOL).to_string()),
                1 => E::Var(self.str_var()),
                _ => {
                    if self.o.arrays {
                        if let Some(e) = self.elem(true) {
                            return e;
                        }
                    }
                    E::Str("Q".into())
                }
            };
        }
        match self.t.below(8) {
            0 | 1 => bin(Bin::Add, self.str(depth - 1), self.str(depth - 1)),
            2 => E::Call("LEFT$", vec![self.str(depth - 1), lit(self.t.range(0, 4))]),
            3 => E::Call("RIGHT$", vec![self.str(depth - 1), lit(self.t.range(0, 4))]),
            4 => {
                let s = self.str(depth - 1);
                let p = lit(self.t.range(1, 4));
                if self.t.chance(1, 2) {
                    E::Call("MID$", vec![s, p])
                } else {
                    E::Call("MID$", vec![s, p, lit(self.t.range(0, 3))])
                }
            }
            5 => E::Call("CHR$", vec![lit(65 + self.t.range(0, 25))]),
            6 => E::Call("STR$", vec![self.num(depth - 1)]),
            _ => {
                if self.o.fns {
                    let c: Vec<usize> = (0..self.fns.len()).filter(|i| self.fns[*i].ret_str).collect();
                    if !c.is_empty() {
                        let i = c[self.t.below(c.len())];
                        return self.fn_call(i, depth);
                    }
                }
                E::Call("STRING$", vec![lit(self.t.range(0, 3)), E::Str("*".into())])
            }
        }
    }

    // ------------------------------------------------------------ statements

    fn lval_num(&mut self) -> Lval {
        if self.o.arrays && self.t.chance(1, 5) {
            if let Some(E::Elem(n, s)) = self.elem(false) {
                return Lval::Elem(n, s);
            }
        }
        // never assign to an active loop variable
        Lval::Var(Name::new(self.t.pick_str(NUM_VARS)))
    }

    fn lval_str(&mut self) -> Lval {
        if self.o.arrays && self.t.chance(1, 6) {
            if let Some(E::Elem(n, s)) = self.elem(true) {
                return Lval::Elem(n, s);
            }
        }
        Lval::Var(self.str_var())
    }

    fn print_stmt(&mut self) -> Stmt {
        let n = self.t.below(4);
        let mut items = vec![];
        for i in 0..n {
            let sep = if i > 0 { self.t.below(if self.o.layout_dep { 4 } else { 2 }) } else { 9 };
            let e = if self.o.layout_dep && self.t.chance(1, 6) {
                match self.t.below(3) {
                    0 => E::Call("TAB", vec![lit(self.t.range(0, 30))]),
                    1 => E::Call("SPC", vec![lit(self.t.range(0, 5))]),
                    _ => E::Call("POS", vec![lit(0)]),
                }
            } else if self.t.chance(1, 3) {
                self.str(1)
            } else {
                self.num(2)
            };
            match sep {
                9 => {}
                0 => items.push(PItem::Semi),
                1 => {
                    // juxtaposition: only where the next item starts with a plain word-like token
                    if !matches!(e, E::Str(_) | E::Var(_) | E::Lit(_)) {
                        items.push(PItem::Semi)
                    }
                }
                _ => items.push(PItem::Comma),
            }
            items.push(PItem::Expr(e));
        }
        if n > 0 {
            match self.t.below(if self.o.layout_dep { 5 } else { 4 }) {
                0 => items.push(PItem::Semi),
                4 => items.push(PItem::Comma),
                _ => {}
            }
        }
        Stmt::Print(items)
    }

    fn simple(&mut self) -> Stmt {
        let w: [u32; 10] = [8, 4, 8, 2, 1, 1, if self.o.data { 2 } else { 0 }, if self.o.input { 1 } else { 0 }, 1, if self.o.tron { 1 } else { 0 }];
        match self.t.weighted(&w) {
            0 => {
                let lv = self.lval_num();
                let e = self.num(2);
                Stmt::Let { lv, e, kw: self.t.chance(1, 8) }
            }
            1 => {
                let lv = self.lval_str();
                let e = self.str(2);
                Stmt::Let { lv, e, kw: false }
            }
            2 => self.print_stmt(),
            3 if self.o.arrays && !self.arrays.is_empty() && self.t.chance(1, 3) => {
                // array elements take part in SWAP like any other variable of their type
                let i = self.t.below(self.arrays.len());
                let (n, dims) = self.arrays[i].clone();
                let ty = n.ty(&self.deftypes);
                let s1: Vec<E> = dims.iter().map(|d| self.small_index(*d)).collect();
                let a = Lval::Elem(n.clone(), s1);
                let partner: Vec<&str> = ["A", "B", "C", "X", "B%", "A#", "A$", "B$"].iter().copied().filter(|v| Name::new(v).ty(&self.deftypes) == ty).collect();
                let b = if partner.is_empty() || self.t.chance(1, 2) {
                    let s2: Vec<E> = dims.iter().map(|d| self.small_index(*d)).collect();
                    Lval::Elem(n, s2)
                } else {
                    Lval::Var(Name::new(partner[self.t.below(partner.len())]))
                };
                if self.t.chance(1, 2) {
                    Stmt::Swap(a, b)
                } else {
                    Stmt::Swap(b, a)
                }
            }
            3 => {
                if self.t.chance(1, 2) {
                    let a = Name::new(self.t.pick_str(&["A", "B", "C", "X"]));
                    let b = Name::new(self.t.pick_str(&["A", "B", "C", "X"]));
                    Stmt::Swap(Lval::Var(a), Lval::Var(b))
                } else {
                    Stmt::Swap(Lval::Var(Name::new("A$")), Lval::Var(Name::new("B$")))
                }
            }
            4 => {
                let lv = self.lval_str();
                let pos = lit(self.t.range(1, 4));
                let len = if self.t.chance(1, 2) { Some(lit(self.t.range(0, 3))) } else { None };
                let e = self.str(1);
                Stmt::MidSet { lv, pos, len, e }
            }
            5 => Stmt::Rem { tick: self.t.chance(1, 2), text: format!(" {}", self.t.pick(&["note", "é remark", "GOTO 10", "x: y", "\"q"])) },
            6 => {
                if self.t.chance(1, 3) {
                    Stmt::Restore(None)
                } else {
                    let n = 1 + self.t.below(2);
                    let mut v = vec![];
                    for _ in 0..n {
                        // DATA holds numbers only, so any numeric target can take any constant
                        v.push(self.lval_num());
                    }
                    Stmt::Read(v)
                }
            }
            7 => self.input_stmt(),
            8 => Stmt::Empty,
            _ => {
                if self.t.chance(1, 2) {
                    Stmt::Tron
                } else {
                    Stmt::Troff
                }
            }
        }
    }

    fn input_stmt(&mut self) -> Stmt {
        self.n_inputs += 1;
        let shape = self.input_shape.clone();
        let targets = shape
            .iter()
            .map(|t| if *t == Ty::Str { Lval::Var(self.str_var()) } else { Lval::Var(Name::new(self.t.pick_str(&["A", "B%", "A#", "X"]))) })
            .collect();
        let prompt = if self.t.chance(1, 2) { Some(self.t.pick(&["N", "VALUE", "é"]).to_string()) } else { None };
        Stmt::Input { nocaps: self.t.chance(1, 4), prompt, targets }
    }

    fn error_stmt(&mut self) -> Stmt {
        self.error_planted = true;
        match self.t.below(9) {
            0 => Stmt::Let { lv: Lval::Var(Name::new("A%")), e: bin(Bin::Add, E::Lit("32767".into()), E::Lit("1".into())), kw: false },
            1 => Stmt::Let { lv: Lval::Var(Name::new("A")), e: bin(Bin::IDiv, E::Lit("1".into()), E::Lit("0".into())), kw: false },
            2 => Stmt::Let { lv: Lval::Var(Name::new("A")), e: E::Elem(Name::new("Q9"), vec![E::Lit("11".into())]), kw: false },
            3 => Stmt::Let { lv: Lval::Var(Name::new("A$")), e: E::Lit("5".into()), kw: false },
            4 => Stmt::Next(vec![]),
            5 => Stmt::Return,
            6 => Stmt::Let { lv: Lval::Var(Name::new("A")), e: E::Fn(Name::new("FNZZ"), vec![E::Lit("1".into())]), kw: false },
            7 => Stmt::On { sel: lit(-1), gosub: false, targets: vec![] },
            _ => Stmt::Let { lv: Lval::Var(Name::new("A%")), e: E::Lit("40000".into()), kw: false },
        }
    }

    /// A short inline statement list for IF arms and one-line loops (no line references except
    /// GOSUB to subroutines; an IF is always last).
    fn inline(&mut self, n: usize, depth: usize) -> Vec<Stmt> {
        let mut v = vec![];
        for i in 0..n {
            let last = i + 1 == n;
            let ends = self.o.allow_end;
            let s = match self.t.weighted(&[10, if last && depth > 0 { 3 } else { 0 }, 2, if self.in_sub.is_some() && last { 1 } else { 0 }, if last && ends { 1 } else { 0 }]) {
                0 => self.simple(),
                1 => self.if_inline(depth - 1),
                2 => match self.gosub_target() {
                    Some(l) => Stmt::Gosub(l),
                    None => self.simple(),
                },
                3 => Stmt::Return,
                _ => {
                    if self.o.errors && self.t.chance(1, 6) {
                        self.error_stmt()
                    } else if self.t.chance(1, 3) && self.o.stop {
                        Stmt::Stop
                    } else {
                        Stmt::End
                    }
                }
            };
            let is_if = matches!(s, Stmt::If { .. } | Stmt::Rem { .. });
            v.push(s);
            if is_if {
                break;
            }
        }
        v
    }

    fn if_inline(&mut self, depth: usize) -> Stmt {
        let c = self.cond(1);
        let nt = 1 + self.t.below(2);
        let mut then_ = self.inline(nt, depth);
        let has_else = self.t.chance(1, 2);
        if has_else {
            // remarks swallow the rest of the line (including our ELSE)
            strip_rems(&mut then_);
            // an IF without ELSE at the end of the then-arm would capture our ELSE
            close_dangling(&mut then_);
            let ne = 1 + self.t.below(2);
            let else_ = self.inline(ne, depth);
            Stmt::If { c, then_: Arm::Stmts(then_), else_: Some(Arm::Stmts(else_)), goto_form: false }
        } else {
            Stmt::If { c, then_: Arm::Stmts(then_), else_: None, goto_form: false }
        }
    }

    fn gosub_target(&mut self) -> Option<u16> {
        let lo = match self.in_sub {
            None => 0,
            Some(i) => i + 1,
        };
        if lo >= self.subs.len() {
            return None;
        }
        let i = lo + self.t.below(self.subs.len() - lo);
        Some(self.subs[i].label)
    }

    fn free_loop_var(&mut self) -> Option<Name> {
        // subroutines use their own loop variables: a callee must not disturb the loops of its caller
        let pool: Vec<String> = match self.in_sub {
            None => LOOP_VARS.iter().map(|s| s.to_string()).collect(),
            Some(i) => sub_loop_vars(i),
        };
        let c: Vec<&String> = pool.iter().filter(|v| !self.loop_stack.iter().any(|n| n.text() == **v)).collect();
        if c.is_empty() {
            None
        } else {
            Some(Name::new(c[self.t.below(c.len())]))
        }
    }

    fn for_header(&mut self, v: &Name) -> Stmt {
        // at most 4 iterations, values within 0..=6
        let from = self.t.range(0, 3);
        let up = self.t.chance(3, 4);
        let (to, step) = if up { (from + self.t.range(0, 3), self.t.range(1, 2)) } else { (from - self.t.range(0, 3).min(from), -self.t.range(1, 2)) };
        let is_int = v.suffix == Some('%');
        let step_e = if step == 1 && self.t.chance(2, 3) {
            None
        } else if !is_int && step > 0 && self.t.chance(1, 5) {
            Some(E::Lit(".5".into()))
        } else {
            Some(lit(step))
        };
        let from_e = if self.t.chance(1, 6) { bin(Bin::Add, lit(from), lit(0)) } else { lit(from) };
        // "x then y then z, evaluated once": the bound may mention the loop variable itself
        let to_e = if self.t.chance(1, 6) && to >= from { bin(Bin::Add, E::Var(v.clone()), lit(to - from)) } else { lit(to) };
        Stmt::For { v: v.clone(), from: from_e, to: to_e, step: step_e }
    }

    fn block(&mut self, n: usize, depth: usize) {
        for _ in 0..n {
            if self.budget <= 0 {
                return;
            }
            let deep = depth < 3;
            let w: [u32; 13] = [
                14,
                4,
                if deep { 4 } else { 0 },
                if deep { 4 } else { 0 },
                if deep && self.while_depth < WHILE_VARS.len() { 2 } else { 0 },
                3,
                2,
                2,
                if self.o.errors && !self.error_planted { 1 } else { 0 },
                if self.o.stop { 1 } else { 0 },
                if deep { 1 } else { 0 },
                if self.o.allow_end || self.in_sub.is_some() { 1 } else { 0 },
                if self.dimmed.is_empty() { 0 } else { 1 },
            ];
            match self.t.weighted(&w) {
                0 => {
                    let s = self.simple();
                    self.emit(s)
                }
                1 => {
                    let s = self.if_inline(2);
                    self.emit(s)
                }
                2 => self.if_skip(depth),
                3 => self.for_loop(depth),
                4 => self.while_loop(depth),
                5 => {
                    if let Some(l) = self.gosub_target() {
                        self.emit(Stmt::Gosub(l))
                    }
                }
                6 => self.on_stmt(depth),
                7 => {
                    // a one-line FOR loop
                    if let Some(v) = self.free_loop_var() {
                        let h = self.for_header(&v);
                        self.loop_stack.push(v.clone());
                        let nb = 1 + self.t.below(2);
                        let mut body = self.inline(nb, 0);
                        self.loop_stack.pop();
                        body.retain(|s| !matches!(s, Stmt::Rem { .. } | Stmt::End | Stmt::Stop | Stmt::Return | Stmt::If { .. }));
                        let l = self.label();
                        self.start_line(l);
                        let mut v2 = vec![h];
                        v2.extend(body);
                        v2.push(Stmt::Next(if self.t.chance(1, 2) { vec![] } else { vec![v] }));
                        self.cur.as_mut().unwrap().1 = v2;
                        self.flush();
                        self.budget -= 2;
                    }
                }
                8 => {
                    let s = self.error_stmt();
                    if self.t.chance(1, 2) {
                        self.emit(s)
                    } else {
                        let c = self.cond(1);
                        self.emit(Stmt::If { c, then_: Arm::Stmts(vec![s]), else_: None, goto_form: false })
                    }
                }
                9 => self.emit(Stmt::Stop),
                10 => self.nested_discard(),
                12 => {
                    // ERASE and a fresh DIM with the same bounds, kept on one line: the elements
                    // start over from their defaults
                    let i = self.t.below(self.dimmed.len());
                    let name = self.dimmed[i].clone();
                    let dims = self.arrays.iter().find(|(n, _)| *n == name).map(|(_, d)| d.clone()).unwrap_or_default();
                    let l = self.label();
                    self.start_line(l);
                    self.push_cur(Stmt::Erase(vec![name.clone()]));
                    self.push_cur(Stmt::Dim(vec![(name, dims.iter().map(|d| lit(*d as i64)).collect())]));
                    self.flush();
                    self.budget -= 2;
                }
                _ => {
                    let c = self.cond(1);
                    let s = if self.in_sub.is_some() { Stmt::Return } else { Stmt::End };
                    self.emit(Stmt::If { c, then_: Arm::Stmts(vec![s]), else_: None, goto_form: false })
                }
            }
        }
    }

    fn if_skip(&mut self, depth: usize) {
        let target = self.label();
        let c = self.cond(1);
        let form = self.t.below(3);
        let s = match form {
            0 => Stmt::If { c, then_: Arm::Line(target), else_: None, goto_form: false },
            1 => Stmt::If { c, then_: Arm::Line(target), else_: None, goto_form: true },
            _ => Stmt::If { c, then_: Arm::Stmts(vec![self.simple()]), else_: Some(Arm::Line(target)), goto_form: false },
        };
        let s = if let Stmt::If { c, then_: Arm::Stmts(mut v), else_, goto_form } = s {
            strip_rems(&mut v);
            Stmt::If { c, then_: Arm::Stmts(v), else_, goto_form }
        } else {
            s
        };
        self.emit(s);
        let n = 1 + self.t.below(3);
        self.block(n, depth + 1);
        if self.t.chance(1, 4) {
            // plain forward GOTO over a few lines, too
            let t2 = self.label();
            self.emit(Stmt::Goto(t2));
            self.flush();
            let n = 1 + self.t.below(2);
            self.block(n, depth + 1);
            self.start_line(target);
            let s = self.print_stmt();
            self.push_cur(s);
            self.start_line(t2);
            let s = self.simple();
            self.push_cur(s);
        } else {
            self.start_line(target);
            let s = self.simple();
            self.push_cur(s);
        }
    }

    fn for_loop(&mut self, depth: usize) {
        let v = match self.free_loop_var() {
            Some(v) => v,
            None => return,
        };
        let h = self.for_header(&v);
        self.emit(h);
        self.loop_stack.push(v.clone());
        let exit = if self.o.early_exit && self.t.chance(1, 4) { Some(self.label()) } else { None };
        let n = 1 + self.t.below(3);
        self.block(n, depth + 1);
        if let Some(x) = exit {
            let c = self.cond(1);
            let gf = self.t.chance(1, 2);
            self.emit(Stmt::If { c, then_: Arm::Line(x), else_: None, goto_form: gf });
            if self.t.chance(1, 2) {
                self.block(1, depth + 1);
            }
        }
        self.loop_stack.pop();
        let bare = self.t.chance(1, 2);
        self.emit(Stmt::Next(if bare { vec![] } else { vec![v] }));
        if let Some(x) = exit {
            self.start_line(x);
            let s = self.simple();
            self.push_cur(s);
        }
    }

    /// FOR I..:FOR J..:body:NEXT I — the NEXT of the outer variable discards the inner frame.
    fn nested_discard(&mut self) {
        let a = match self.free_loop_var() {
            Some(v) => v,
            None => return,
        };
        let ha = self.for_header(&a);
        self.emit(ha);
        self.loop_stack.push(a.clone());
        if self.o.early_exit && self.t.chance(1, 3) {
            // a loop left by GOTO: its frame stays between the two that the NEXT list names
            if let Some(k) = self.free_loop_var() {
                let hk = self.for_header(&k);
                self.emit(hk);
                let x = self.label();
                self.emit(Stmt::Goto(x));
                self.start_line(x);
                let s = self.print_stmt();
                self.push_cur(s);
            }
        }
        let mut inner = None;
        if let Some(b) = self.free_loop_var() {
            let hb = self.for_header(&b);
            self.emit(hb);
            self.loop_stack.push(b.clone());
            let s = self.print_stmt();
            self.emit(s);
            self.loop_stack.pop();
            inner = Some(b);
        }
        self.loop_stack.pop();
        match (inner, self.t.below(3)) {
            // NEXT J,I closes both loops in one statement
            (Some(b), 1) => self.emit(Stmt::Next(vec![b, a])),
            (Some(b), 2) => {
                let bare = self.t.chance(1, 2);
                self.emit(Stmt::Next(if bare { vec![] } else { vec![b] }));
                self.emit(Stmt::Next(vec![a]));
            }
            _ => self.emit(Stmt::Next(vec![a])),
        }
    }

    fn while_loop(&mut self, depth: usize) {
        let w = match self.in_sub {
            None => Name::new(WHILE_VARS[self.while_depth]),
            Some(i) => Name::new(&sub_while_vars(i)[self.while_depth]),
        };
        self.while_depth += 1;
        let k = self.t.range(0, 3);
        self.emit(Stmt::Let { lv: Lval::Var(w.clone()), e: lit(0), kw: false });
        self.emit(Stmt::While(bin(Bin::Lt, E::Var(w.clone()), lit(k))));
        let n = 1 + self.t.below(3);
        self.block(n, depth + 1);
        self.emit(Stmt::Let { lv: Lval::Var(w.clone()), e: bin(Bin::Add, E::Var(w), lit(1)), kw: false });
        self.emit(Stmt::Wend);
        self.while_depth -= 1;
    }

    fn on_stmt(&mut self, depth: usize) {
        let sel = if self.t.chance(1, 6) { E::Lit(self.t.pick(&["1.5", "2.5", ".4", "2.6", "1.49", "3.5#", "&H2"]).to_string()) } else if self.t.chance(1, 2) { lit(self.t.range(0, 3)) } else { bin(Bin::Mod, E::Call("ABS", vec![E::Call("CINT", vec![self.num(1)])]), lit(4)) };
        if self.t.chance(1, 2) && !self.subs.is_empty() {
            let n = 1 + self.t.below(3);
            let mut targets = vec![];
            for _ in 0..n {
                if let Some(l) = self.gosub_target() {
                    targets.push(l)
                }
            }
            if targets.is_empty() {
                return;
            }
            self.emit(Stmt::On { sel, gosub: true, targets });
        } else {
            let l1 = self.label();
            let l2 = self.label();
            let two = self.t.chance(1, 2);
            self.emit(Stmt::On { sel, gosub: false, targets: if two { vec![l1, l2] } else { vec![l2, l1, l2] } });
            self.flush();
            self.block(1, depth + 1);
            self.start_line(l1);
            let s = self.print_stmt();
            self.push_cur(s);
            self.flush();
            self.block(1, depth + 1);
            self.start_line(l2);
            let s = self.print_stmt();
            self.push_cur(s);
        }
    }

    fn prologue(&mut self) {
        if self.o.deftype && self.t.chance(1, 4) {
            // only letters that the variable pools do not use with a different meaning
            let (t, a, b) = *self.t.pick(&[(Ty::Int, 'X', 'X'), (Ty::Dbl, 'C', 'C'), (Ty::Int, 'N', 'P'), (Ty::Dbl, 'X', 'Z')]);
            for c in (a as u8)..=(b as u8) {
                self.deftypes[(c - b'A') as usize] = t;
            }
            self.emit(Stmt::DefType(t, a, b));
        }
        if self.o.arrays {
            let n = self.t.below(3);
            for _ in 0..n {
                let name = Name::new(self.t.pick_str(&["Q", "R%", "T$", "U#", "V"]));
                if self.arrays.iter().any(|(x, _)| *x == name) {
                    continue;
                }
                let nd = 1 + self.t.below(2);
                let dims: Vec<i16> = (0..nd).map(|_| *self.t.pick(&[1i16, 3, 6, 10, 7])).collect();
                if self.t.chance(2, 3) {
                    self.emit(Stmt::Dim(vec![(name.clone(), dims.iter().map(|d| lit(*d as i64)).collect())]));
                    self.dimmed.push(name.clone());
                    self.arrays.push((name, dims));
                } else {
                    // used undeclared: bound 10 in every dimension
                    self.arrays.push((name, vec![10; nd]));
                }
            }
        }
        if self.o.fns {
            let n = self.t.below(3);
            for k in 0..n {
                let ret_str = self.t.chance(1, 4);
                let name = Name::new(&format!("FN{}{}", ["A", "B", "C"][k], if ret_str { "$" } else { "" }));
                let np = 1 + self.t.below(2);
                let mut params = vec![];
                let mut ptys = vec![];
                for j in 0..np {
                    let is_str = self.t.chance(1, 4);
                    // parameter names shadow program variables on purpose
                    let p = if is_str { Name::new(["A$", "S$"][j]) } else { Name::new([["A", "P"], ["B%", "X"]][j][self.t.below(2)]) };
                    ptys.push(if is_str { Ty::Str } else { Ty::Int });
                    params.push(p);
                }
                // the body uses its parameters, globals and earlier functions
                let body = {
                    let pe: Vec<E> = params.iter().map(|p| E::Var(p.clone())).collect();
                    let num_params: Vec<E> = params.iter().zip(ptys.iter()).filter(|(_, t)| **t != Ty::Str).map(|(p, _)| E::Var(p.clone())).collect();
                    let str_params: Vec<E> = params.iter().zip(ptys.iter()).filter(|(_, t)| **t == Ty::Str).map(|(p, _)| E::Var(p.clone())).collect();
                    let _ = pe;
                    if ret_str {
                        let base = if !str_params.is_empty() { str_params[0].clone() } else { E::Call("STR$", vec![num_params[0].clone()]) };
                        bin(Bin::Add, base, self.str(1))
                    } else {
                        let base = if !num_params.is_empty() { num_params[0].clone() } else { E::Call("LEN", vec![str_params[0].clone()]) };
                        let extra = self.num(1);
                        bin(*self.t.pick(&[Bin::Add, Bin::Mul, Bin::Sub]), base, extra)
                    }
                };
                self.emit(Stmt::Def { name: name.clone(), params, body });
                self.fns.push(FnInfo { name, params: ptys, ret_str });
            }
        }
    }
}

fn retarget_restore(stmts: &mut Vec<Stmt>, labels: &[u16], t: &mut Tape) {
    for s in stmts.iter_mut() {
        match s {
            Stmt::Restore(n @ None) => {
                if t.chance(1, 2) {
                    *n = Some(*t.pick(labels));
                }
            }
            Stmt::If { then_, else_, .. } => {
                if let Arm::Stmts(v) = then_ {
                    retarget_restore(v, labels, t);
                }
                if let Some(Arm::Stmts(v)) = else_ {
                    retarget_restore(v, labels, t);
                }
            }
            _ => {}
        }
    }
}

/// Removes remarks everywhere in a statement list that is followed by more text on the line.
pub fn strip_rems(stmts: &mut Vec<Stmt>) {
    stmts.retain(|s| !matches!(s, Stmt::Rem { .. }));
    for s in stmts.iter_mut() {
        if let Stmt::If { then_, else_, .. } = s {
            if let Arm::Stmts(v) = then_ {
                strip_rems(v);
            }
            if let Some(Arm::Stmts(v)) = else_ {
                strip_rems(v);
            }
        }
    }
    if stmts.is_empty() {
        stmts.push(Stmt::Empty);
    }
}

/// Gives every IF on the last-statement chain an (empty) ELSE so that a following ELSE binds
/// to the outer IF.
pub fn close_dangling(stmts: &mut Vec<Stmt>) {
    if let Some(Stmt::If { then_, else_, .. }) = stmts.last_mut() {
        match else_ {
            None => {
                *else_ = Some(Arm::Stmts(vec![]));
                if let Arm::Stmts(v) = then_ {
                    close_dangling(v);
                }
            }
            Some(Arm::Stmts(v)) => close_dangling(v),
            Some(Arm::Line(_)) => {}
        }
    }
}

pub fn reply_for(shape: &[Ty], t: &mut Tape) -> String {
    shape
        .iter()
        .map(|ty| {
            if *ty == Ty::Str {
                t.pick(&["HELLO", "x", "\"a,b\"", " pad ", "é", ""]).to_string()
            } else {
                t.pick(&["1", "2", "0", "-3", "2.5", " 7 ", "1E1", "", "&H10"]).to_string()
            }
        })
        .collect::<Vec<_>>()
        .join(",")
}

/// Generates a program of the well-defined fragment.
pub fn program(t: &mut Tape, o: &GenOpts) -> Generated {
    let nsubs = t.below(4);
    let shape: Vec<Ty> = match t.below(4) {
        0 => vec![Ty::Sng],
        1 => vec![Ty::Str],
        2 => vec![Ty::Sng, Ty::Str],
        _ => vec![Ty::Sng, Ty::Sng],
    };
    let size = 4 + t.below(o.size.max(1));
    let mut g = G {
        t,
        o: o.clone(),
        lines: vec![],
        cur: None,
        next_label: 0,
        subs: vec![],
        in_sub: None,
        fns: vec![],
        arrays: vec![],
        dimmed: vec![],
        loop_stack: vec![],
        while_depth: 0,
        budget: size as isize,
        input_shape: shape.clone(),
        n_inputs: 0,
        fuel_used: 0,
        deftypes: [Ty::Sng; 26],
        error_planted: false,
    };
    for _ in 0..nsubs {
        let l = g.label();
        g.subs.push(Sub_ { label: l });
    }
    g.prologue();
    g.flush();
    let main_start = g.label();
    g.start_line(main_start);
    g.cur.as_mut().unwrap().1.push(Stmt::Empty);
    let n = 2 + g.t.below(8);
    g.block(n, 0);
    if g.o.fuel_loops && g.t.chance(1, 4) {
        // backward jump behind a fuel counter
        let k = 2 + g.t.range(0, 1);
        g.emit(Stmt::Let { lv: Lval::Var(Name::new("F9%")), e: bin(Bin::Add, E::Var(Name::new("F9%")), lit(1)), kw: false });
        let gf = g.t.chance(1, 2);
        g.emit(Stmt::If { c: bin(Bin::Lt, E::Var(Name::new("F9%")), lit(k)), then_: Arm::Line(main_start), else_: None, goto_form: gf });
        g.fuel_used += 1;
    }
    g.flush();
    // without subroutines behind it the program may simply run off its last statement, whatever
    // kind that is (ON..GOTO falling through, a false IF, NEXT, WEND, ...)
    let implicit_end = nsubs == 0 && g.o.allow_end && g.t.chance(1, 3);
    if !implicit_end {
        let l = g.label();
        g.start_line(l);
        g.cur.as_mut().unwrap().1.push(Stmt::End);
        g.flush();
    }
    for i in 0..nsubs {
        g.in_sub = Some(i);
        g.budget = g.budget.max(4);
        let l = g.subs[i].label;
        g.start_line(l);
        let s = g.simple();
        g.push_cur(s);
        let n = g.t.below(4);
        g.block(n, 1);
        g.emit(Stmt::Return);
        g.flush();
    }
    g.in_sub = None;
    // DATA lines sprinkled before, between and after the code
    let mut lines = std::mem::take(&mut g.lines);
    if g.o.data {
        let nd = g.t.below(4);
        for _ in 0..nd {
            let n = 1 + g.t.below(4);
            let items: Vec<String> = (0..n).map(|_| g.t.pick(&["1", "2", "-5", "3.5", "&H10", "1E1", "7", "0", "12", "-2.5", "100"]).to_string()).collect();
            let at = g.t.below(lines.len() + 1);
            let l = g.label();
            lines.insert(at, (l, vec![Stmt::Data(items)]));
        }
    }
    // RESTORE n: any line may be named (the first constant at or after it is meant)
    if g.o.data && !lines.is_empty() {
        let labels: Vec<u16> = lines.iter().map(|(l, _)| *l).collect();
        for (_, stmts) in lines.iter_mut() {
            retarget_restore(stmts, &labels, g.t);
        }
    }
    // line numbers: random increasing
    let mut nums = vec![];
    let mut cur: u32 = match g.t.below(6) {
        0 => 0,
        1 => 1,
        _ => 10,
    };
    for _ in 0..lines.len() {
        nums.push(cur as u16);
        cur += match g.t.below(5) {
            0 => 1,
            1 => 5,
            2 => 100,
            _ => 10,
        };
    }
    if g.t.chance(1, 12) && !nums.is_empty() {
        let last = nums.len() - 1;
        nums[last] = 65529;
    }
    let map: std::collections::HashMap<u16, u16> = lines.iter().zip(nums.iter()).map(|((l, _), n)| (*l, *n)).collect();
    let mut prog = Program::default();
    for ((_, stmts), n) in lines.into_iter().zip(nums.iter()) {
        let mut stmts = stmts;
        if render_stmts(&stmts).is_empty() {
            // a numbered line without text would delete the line
            stmts = vec![Stmt::Rem { tick: false, text: String::new() }];
        }
        for s in stmts.iter_mut() {
            map_refs_deep(s, &mut |l| *map.get(&l).unwrap_or(&l));
        }
        prog.lines.push(Line { num: *n, stmts });
    }
    let nrep = if g.n_inputs == 0 { 0 } else { 6 + g.t.below(6) };
    let mut replies = vec![];
    for _ in 0..nrep {
        if g.t.chance(1, 8) {
            replies.push(g.t.pick(&["x,y,z,w", "\"", "1 2", "99999999999", ",,"]).to_string());
        } else {
            replies.push(reply_for(&shape, g.t));
        }
    }
    let mut probes: Vec<E> = vec![];
    for v in NUM_VARS.iter().chain(STR_VARS.iter()).chain(LOOP_VARS.iter()).chain(WHILE_VARS.iter()).chain(["F9%"].iter()) {
        probes.push(E::Var(Name::new(v)));
    }
    for i in 0..nsubs {
        for v in sub_loop_vars(i).iter().chain(sub_while_vars(i).iter()) {
            probes.push(E::Var(Name::new(v)));
        }
    }
    for (n, dims) in &g.arrays {
        probes.push(E::Elem(n.clone(), dims.iter().map(|_| lit(0)).collect()));
        probes.push(E::Elem(n.clone(), dims.iter().map(|_| lit(1)).collect()));
    }
    Generated { prog, replies, probes }
}

/// map_refs including statements nested in IF arms (map_refs already recurses into arms).
pub fn map_refs_deep(s: &mut Stmt, f: &mut dyn FnMut(u16) -> u16) {
    map_refs(s, f)
}

/// A direct-mode statement list without line references.
pub fn direct_list(t: &mut Tape, o: &GenOpts) -> Vec<Stmt> {
    let mut g = G {
        t,
        o: o.clone(),
        lines: vec![],
        cur: None,
        next_label: 0,
        subs: vec![],
        in_sub: None,
        fns: vec![],
        arrays: vec![],
        dimmed: vec![],
        loop_stack: vec![],
        while_depth: 0,
        budget: 8,
        input_shape: vec![Ty::Sng],
        n_inputs: 0,
        fuel_used: 0,
        deftypes: [Ty::Sng; 26],
        error_planted: false,
    };
    g.o.data = false;
    g.o.input = false;
    g.o.fns = false;
    let n = 1 + g.t.below(4);
    let mut v: Vec<Stmt> = vec![];
    for _ in 0..n {
        match g.t.below(5) {
            0 => {
                if let Some(var) = g.free_loop_var() {
                    let h = g.for_header(&var);
                    g.loop_stack.push(var.clone());
                    let nb = 1 + g.t.below(2);
                    let mut body = g.inline(nb, 0);
                    g.loop_stack.pop();
                    body.retain(|s| !matches!(s, Stmt::Rem { .. } | Stmt::End | Stmt::Stop | Stmt::Return | Stmt::If { .. }));
                    v.push(h);
                    v.extend(body);
                    v.push(Stmt::Next(vec![]));
                }
            }
            _ => {
                let s = g.simple();
                if !matches!(s, Stmt::Rem { .. }) {
                    v.push(s)
                }
            }
        }
    }
    if g.t.chance(1, 3) {
        v.push(g.if_inline(1));
    }
    if v.is_empty() {
        v.push(Stmt::Print(vec![PItem::Expr(E::Lit("1".into()))]));
    }
    v
}
