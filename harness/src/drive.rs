//! Terminal emulation: the harness *is* the terminal (src/term is in the binary, not the
//! library). Drives a `Runtime` with exactly the calling protocol of src/term/mod.rs and
//! records a normalised transcript. Every library call runs under `catch_unwind`.

use basic::mach::{Event, Listing, Runtime};
use std::cell::RefCell;
use std::collections::{HashMap, VecDeque};
use std::panic::{catch_unwind, AssertUnwindSafe};

thread_local! {
    static LAST_PANIC: RefCell<String> = RefCell::new(String::new());
}

pub fn install_panic_hook() {
    std::panic::set_hook(Box::new(|info| {
        let msg = format!("{}", info);
        LAST_PANIC.with(|p| *p.borrow_mut() = msg);
    }));
}

pub fn last_panic() -> String {
    LAST_PANIC.with(|p| p.borrow().clone())
}

/// Run a closure that calls into the library; Err(message) when it panicked.
pub fn guarded<T>(f: impl FnOnce() -> T) -> Result<T, String> {
    match catch_unwind(AssertUnwindSafe(f)) {
        Ok(v) => Ok(v),
        Err(_) => Err(last_panic()),
    }
}

#[derive(Clone, Debug, PartialEq)]
pub enum Ev {
    Out(String),
    Prompt(String, bool),
    Reply(String),
    /// Error texts, sorted (compile-time error lists come out of a HashMap).
    Errs(Vec<String>),
    List(String, Vec<(usize, usize)>),
    Cls,
    Load(String),
    Run(String),
    Save(String),
    Inkey(String),
    Break,
    Panic(String),
}

#[derive(Clone, Debug, PartialEq)]
pub enum End {
    Stopped,
    /// The call budget ran out; the harness interrupted the program.
    Budget,
    Panic,
}

pub struct Opts {
    pub replies: VecDeque<String>,
    pub keys: VecDeque<String>,
    pub quantum: usize,
    /// Per-call quanta (cycled) overriding `quantum` when non-empty.
    pub quanta: Vec<usize>,
    pub max_calls: usize,
    pub files: HashMap<String, String>,
    /// When there is no reply left for an INPUT: interrupt (true) or stop driving (false).
    pub interrupt_on_starved_input: bool,
}

impl Default for Opts {
    fn default() -> Self {
        Opts {
            replies: VecDeque::new(),
            keys: VecDeque::new(),
            quantum: 5000,
            quanta: vec![],
            max_calls: 4000,
            files: HashMap::new(),
            interrupt_on_starved_input: true,
        }
    }
}

impl Opts {
    pub fn with_replies(replies: &[String]) -> Opts {
        Opts { replies: replies.iter().cloned().collect(), ..Opts::default() }
    }
}

pub struct Term {
    pub rt: Runtime,
    pub log: Vec<Ev>,
    pub dead: bool,
    pub calls: usize,
}

pub fn err_texts(errors: &[basic::lang::Error]) -> Vec<String> {
    let mut v: Vec<String> = errors.iter().map(|e| e.to_string()).collect();
    v.sort();
    v
}

impl Term {
    pub fn new() -> Term {
        let mut t = Term { rt: Runtime::default(), log: vec![], dead: false, calls: 0 };
        t.rt.set_prompt("");
        // Drain the intro banner.
        for _ in 0..4 {
            match guarded(|| t.rt.execute(10)) {
                Ok(Event::Stopped) => break,
                Ok(_) => {}
                Err(m) => {
                    t.dead = true;
                    t.log.push(Ev::Panic(m));
                    break;
                }
            }
        }
        t.log.clear();
        t
    }

    pub fn take(&mut self) -> Vec<Ev> {
        std::mem::take(&mut self.log)
    }

    fn quantum(&self, o: &Opts, call: usize) -> usize {
        if o.quanta.is_empty() {
            o.quantum
        } else {
            o.quanta[call % o.quanta.len()]
        }
    }

    pub fn enter_raw(&mut self, s: &str) -> bool {
        if self.dead {
            return false;
        }
        match guarded(|| self.rt.enter(s)) {
            Ok(b) => b,
            Err(m) => {
                self.dead = true;
                self.log.push(Ev::Panic(format!("enter({:?}): {}", s, m)));
                false
            }
        }
    }

    pub fn interrupt(&mut self) {
        if self.dead {
            return;
        }
        self.log.push(Ev::Break);
        if let Err(m) = guarded(|| self.rt.interrupt()) {
            self.dead = true;
            self.log.push(Ev::Panic(format!("interrupt(): {}", m)));
        }
    }

    /// One `execute` call; handles the event exactly like the terminal does. Returns true when
    /// the runtime reported `Stopped` (ready for the next line).
    pub fn step(&mut self, o: &mut Opts) -> bool {
        if self.dead {
            return true;
        }
        let q = self.quantum(o, self.calls);
        self.calls += 1;
        let ev = match guarded(|| self.rt.execute(q)) {
            Ok(e) => e,
            Err(m) => {
                self.dead = true;
                self.log.push(Ev::Panic(format!("execute({}): {}", q, m)));
                return true;
            }
        };
        match ev {
            Event::Stopped => return true,
            Event::Running => {}
            Event::Print(s) => {
                if let Some(Ev::Out(prev)) = self.log.last_mut() {
                    prev.push_str(&s);
                } else if !s.is_empty() {
                    self.log.push(Ev::Out(s));
                }
            }
            Event::Errors(errs) => self.log.push(Ev::Errs(err_texts(&errs))),
            Event::Input(prompt, caps) => {
                self.log.push(Ev::Prompt(prompt, caps));
                if let Some(r) = o.replies.pop_front() {
                    self.log.push(Ev::Reply(r.clone()));
                    self.enter_raw(&r);
                } else if o.interrupt_on_starved_input {
                    self.interrupt();
                } else {
                    return true;
                }
            }
            Event::List((s, cols)) => {
                // the underline ranges of a line come in no particular order (a terminal draws
                // them all): sorted, so that transcripts compare
                let mut c: Vec<(usize, usize)> = cols.iter().map(|c| (c.start, c.end)).collect();
                c.sort();
                self.log.push(Ev::List(s, c))
            }
            Event::Cls => self.log.push(Ev::Cls),
            Event::Inkey => {
                let k = o.keys.pop_front().unwrap_or_default();
                self.log.push(Ev::Inkey(k.clone()));
                self.enter_raw(&k);
            }
            Event::Save(name) => {
                self.log.push(Ev::Save(name));
                let _ = guarded(|| self.rt.get_listing());
            }
            Event::Load(name) => {
                self.log.push(Ev::Load(name.clone()));
                self.load(&name, false, o);
            }
            Event::Run(name) => {
                self.log.push(Ev::Run(name.clone()));
                self.load(&name, true, o);
            }
        }
        false
    }

    fn load(&mut self, name: &str, run: bool, o: &Opts) {
        match o.files.get(name) {
            None => self.log.push(Ev::Errs(vec!["?FILE NOT FOUND".into()])),
            Some(text) => match guarded(|| load_listing(text)) {
                Err(m) => {
                    self.dead = true;
                    self.log.push(Ev::Panic(format!("load_str: {}", m)));
                }
                Ok(Err(e)) => self.log.push(Ev::Errs(vec![e])),
                Ok(Ok(l)) => {
                    if let Err(m) = guarded(|| self.rt.set_listing(l, run)) {
                        self.dead = true;
                        self.log.push(Ev::Panic(format!("set_listing: {}", m)));
                    }
                }
            },
        }
    }

    /// Drive until Stopped, at most `max_calls` execute calls; then interrupt and drain.
    pub fn run(&mut self, o: &mut Opts) -> End {
        let mut n = 0;
        loop {
            if self.dead {
                return End::Panic;
            }
            if self.step(o) {
                return if self.dead { End::Panic } else { End::Stopped };
            }
            n += 1;
            if n >= o.max_calls {
                // Budget exhausted: stop the program the way a user would.
                self.interrupt();
                o.replies.clear();
                for _ in 0..(200_000) {
                    if self.dead || self.step(o) {
                        break;
                    }
                }
                return if self.dead { End::Panic } else { End::Budget };
            }
        }
    }

    /// enter(line) then drive to Stopped.
    pub fn line(&mut self, s: &str, o: &mut Opts) -> End {
        self.enter_raw(s);
        self.run(o)
    }

    /// Convenience: enter several lines with default options, returning the flat transcript.
    pub fn lines_flat(&mut self, lines: &[&str]) -> String {
        let mut o = Opts::default();
        for l in lines {
            self.line(l, &mut o);
        }
        flat(&self.take())
    }

    pub fn listing_text(&self) -> Vec<String> {
        self.rt.get_listing().lines().map(|l| l.to_string()).collect()
    }
}

pub fn load_listing(text: &str) -> Result<Listing, String> {
    let mut l = Listing::default();
    for (i, line) in text.lines().enumerate() {
        if let Err(e) = l.load_str(line) {
            return Err(format!("{}; In line {} of the file.", e, i + 1));
        }
    }
    Ok(l)
}

/// Comparison form of a transcript.
pub fn flat(evs: &[Ev]) -> String {
    let mut s = String::new();
    for e in evs {
        match e {
            Ev::Out(t) => s.push_str(t),
            Ev::Prompt(p, caps) => {
                s.push_str(p);
                s.push_str(if *caps { "«caps»" } else { "«nocaps»" });
            }
            Ev::Reply(r) => {
                s.push_str(r);
                s.push('\n');
            }
            Ev::Errs(v) => {
                for e in v {
                    s.push_str(e);
                    s.push('\n');
                }
            }
            Ev::List(t, cols) => {
                s.push_str(t);
                if !cols.is_empty() {
                    s.push_str(&format!(" «{:?}»", cols));
                }
                s.push('\n');
            }
            Ev::Cls => s.push_str("«cls»"),
            Ev::Load(n) => s.push_str(&format!("«load {}»", n)),
            Ev::Run(n) => s.push_str(&format!("«run {}»", n)),
            Ev::Save(n) => s.push_str(&format!("«save {}»", n)),
            Ev::Inkey(k) => s.push_str(&format!("«key {:?}»", k)),
            Ev::Break => s.push_str("«^C»"),
            Ev::Panic(m) => s.push_str(&format!("«PANIC {}»", m)),
        }
    }
    s
}

/// Only what the program wrote and asked (no «^C» markers), for CONT-transparency checks.
pub fn printed(evs: &[Ev]) -> String {
    let mut s = String::new();
    for e in evs {
        if let Ev::Out(t) = e {
            s.push_str(t)
        }
    }
    s
}

pub fn has_panic(evs: &[Ev]) -> Option<String> {
    for e in evs {
        if let Ev::Panic(m) = e {
            return Some(m.clone());
        }
    }
    None
}
