#![allow(dead_code)]
//! The verification harness as a library (used by the `verif-check` binary and by the
//! libFuzzer targets under /verif/fuzz).
pub mod astnorm;
pub mod bast;
pub mod bastnorm;
pub mod checks;
pub mod drive;
pub mod expr;
pub mod gen;
pub mod model;
pub mod runner;
pub mod sem;
pub mod tape;
pub mod textgen;
