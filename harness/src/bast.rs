//! The harness's own BASIC AST (never built from the implementation's parser), its canonical
//! printer (exactly the text LIST shows) with character spans of line-number operands, string
//! literals, remarks and keywords, and generic reference mapping.

use crate::expr::*;
use crate::sem::Ty;

#[derive(Clone, Debug, PartialEq)]
pub enum PItem {
    Expr(E),
    Semi,
    Comma,
}

#[derive(Clone, Debug, PartialEq)]
pub enum Lval {
    Var(Name),
    Elem(Name, Vec<E>),
}

impl Lval {
    pub fn name(&self) -> &Name {
        match self {
            Lval::Var(n) => n,
            Lval::Elem(n, _) => n,
        }
    }
    pub fn as_expr(&self) -> E {
        match self {
            Lval::Var(n) => E::Var(n.clone()),
            Lval::Elem(n, s) => E::Elem(n.clone(), s.clone()),
        }
    }
}

#[derive(Clone, Debug, PartialEq)]
pub enum Arm {
    Line(u16),
    Stmts(Vec<Stmt>),
}

/// LIST / DELETE operand forms.
#[derive(Clone, Debug, PartialEq)]
pub struct RangeSpec {
    pub from: Option<u16>,
    pub dash: bool,
    pub to: Option<u16>,
}

#[derive(Clone, Debug, PartialEq)]
pub enum Stmt {
    Let { lv: Lval, e: E, kw: bool },
    Print(Vec<PItem>),
    If { c: E, then_: Arm, else_: Option<Arm>, goto_form: bool },
    For { v: Name, from: E, to: E, step: Option<E> },
    Next(Vec<Name>),
    While(E),
    Wend,
    Goto(u16),
    Gosub(u16),
    Return,
    On { sel: E, gosub: bool, targets: Vec<u16> },
    End,
    Stop,
    Input { nocaps: bool, prompt: Option<String>, targets: Vec<Lval> },
    Read(Vec<Lval>),
    /// literal source texts: `-5`, `"A"`, `&H10`, `1.5`
    Data(Vec<String>),
    Restore(Option<u16>),
    Dim(Vec<(Name, Vec<E>)>),
    Erase(Vec<Name>),
    Swap(Lval, Lval),
    MidSet { lv: Lval, pos: E, len: Option<E>, e: E },
    Def { name: Name, params: Vec<Name>, body: E },
    DefType(Ty, char, char),
    Rem { tick: bool, text: String },
    Tron,
    Troff,
    Clear,
    Run(Option<u16>),
    List(RangeSpec),
    Delete(RangeSpec),
    Cont,
    New,
    Renum(Vec<Option<u16>>),
    Empty,
}

#[derive(Clone, Debug, PartialEq)]
pub struct Line {
    pub num: u16,
    pub stmts: Vec<Stmt>,
}

#[derive(Clone, Debug, PartialEq, Default)]
pub struct Program {
    pub lines: Vec<Line>,
}

fn lval_tokens(lv: &Lval, out: &mut Vec<Tok>) {
    tokens(&lv.as_expr(), out)
}

fn lref(n: u16) -> Tok {
    Tok::new(&n.to_string(), TK::LineRef)
}

fn range_tokens(r: &RangeSpec, out: &mut Vec<Tok>) {
    if let Some(a) = r.from {
        out.push(lref(a));
    }
    if r.dash {
        out.push(Tok::p("-"));
    }
    if let Some(b) = r.to {
        out.push(lref(b));
    }
}

fn arm_tokens(a: &Arm, out: &mut Vec<Tok>) {
    match a {
        Arm::Line(n) => out.push(lref(*n)),
        Arm::Stmts(v) => stmts_tokens(v, out),
    }
}

pub fn stmts_tokens(v: &[Stmt], out: &mut Vec<Tok>) {
    for (i, s) in v.iter().enumerate() {
        if i > 0 {
            out.push(Tok::p(":"));
        }
        stmt_tokens(s, out);
    }
}

pub fn stmt_tokens(s: &Stmt, out: &mut Vec<Tok>) {
    use Stmt::*;
    match s {
        Let { lv, e, kw } => {
            if *kw {
                out.push(Tok::kw("LET"));
            }
            lval_tokens(lv, out);
            out.push(Tok::p("="));
            tokens(e, out);
        }
        Print(items) => {
            out.push(Tok::kw("PRINT"));
            for it in items {
                match it {
                    PItem::Expr(e) => tokens(e, out),
                    PItem::Semi => out.push(Tok::p(";")),
                    PItem::Comma => out.push(Tok::p(",")),
                }
            }
        }
        If { c, then_, else_, goto_form } => {
            out.push(Tok::kw("IF"));
            tokens(c, out);
            if *goto_form {
                out.push(Tok::kw("GOTO"));
            } else {
                out.push(Tok::kw("THEN"));
            }
            arm_tokens(then_, out);
            if let Some(e) = else_ {
                out.push(Tok::kw("ELSE"));
                arm_tokens(e, out);
            }
        }
        For { v, from, to, step } => {
            out.push(Tok::kw("FOR"));
            out.push(Tok::id(&v.text()));
            out.push(Tok::p("="));
            tokens(from, out);
            out.push(Tok::kw("TO"));
            tokens(to, out);
            if let Some(st) = step {
                out.push(Tok::kw("STEP"));
                tokens(st, out);
            }
        }
        Next(vs) => {
            out.push(Tok::kw("NEXT"));
            for (i, v) in vs.iter().enumerate() {
                if i > 0 {
                    out.push(Tok::p(","));
                }
                out.push(Tok::id(&v.text()));
            }
        }
        While(e) => {
            out.push(Tok::kw("WHILE"));
            tokens(e, out);
        }
        Wend => out.push(Tok::kw("WEND")),
        Goto(n) => {
            out.push(Tok::kw("GOTO"));
            out.push(lref(*n));
        }
        Gosub(n) => {
            out.push(Tok::kw("GOSUB"));
            out.push(lref(*n));
        }
        Return => out.push(Tok::kw("RETURN")),
        On { sel, gosub, targets } => {
            out.push(Tok::kw("ON"));
            tokens(sel, out);
            out.push(Tok::kw(if *gosub { "GOSUB" } else { "GOTO" }));
            for (i, n) in targets.iter().enumerate() {
                if i > 0 {
                    out.push(Tok::p(","));
                }
                out.push(lref(*n));
            }
        }
        End => out.push(Tok::kw("END")),
        Stop => out.push(Tok::kw("STOP")),
        Input { nocaps, prompt, targets } => {
            out.push(Tok::kw("INPUT"));
            if *nocaps {
                out.push(Tok::p(","));
            }
            if let Some(p) = prompt {
                out.push(Tok::new(&format!("\"{}\"", p), TK::Str));
                out.push(Tok::p(";"));
            }
            for (i, lv) in targets.iter().enumerate() {
                if i > 0 {
                    out.push(Tok::p(","));
                }
                lval_tokens(lv, out);
            }
        }
        Read(targets) => {
            out.push(Tok::kw("READ"));
            for (i, lv) in targets.iter().enumerate() {
                if i > 0 {
                    out.push(Tok::p(","));
                }
                lval_tokens(lv, out);
            }
        }
        Data(items) => {
            out.push(Tok::kw("DATA"));
            for (i, d) in items.iter().enumerate() {
                if i > 0 {
                    out.push(Tok::p(","));
                }
                if let Some(r) = d.strip_prefix('-') {
                    out.push(Tok::p("-"));
                    out.push(Tok::num(r));
                } else if d.starts_with('"') {
                    out.push(Tok::new(d, TK::Str));
                } else {
                    out.push(Tok::num(d));
                }
            }
        }
        Restore(n) => {
            out.push(Tok::kw("RESTORE"));
            if let Some(n) = n {
                out.push(lref(*n));
            }
        }
        Dim(arrs) => {
            out.push(Tok::kw("DIM"));
            for (i, (n, dims)) in arrs.iter().enumerate() {
                if i > 0 {
                    out.push(Tok::p(","));
                }
                tokens(&E::Elem(n.clone(), dims.clone()), out);
            }
        }
        Erase(ns) => {
            out.push(Tok::kw("ERASE"));
            for (i, n) in ns.iter().enumerate() {
                if i > 0 {
                    out.push(Tok::p(","));
                }
                out.push(Tok::id(&n.text()));
            }
        }
        Swap(a, b) => {
            out.push(Tok::kw("SWAP"));
            lval_tokens(a, out);
            out.push(Tok::p(","));
            lval_tokens(b, out);
        }
        MidSet { lv, pos, len, e } => {
            out.push(Tok::id("MID$"));
            out.push(Tok::p("("));
            lval_tokens(lv, out);
            out.push(Tok::p(","));
            tokens(pos, out);
            if let Some(l) = len {
                out.push(Tok::p(","));
                tokens(l, out);
            }
            out.push(Tok::p(")"));
            out.push(Tok::p("="));
            tokens(e, out);
        }
        Def { name, params, body } => {
            out.push(Tok::kw("DEF"));
            out.push(Tok::id(&name.text()));
            out.push(Tok::p("("));
            for (i, p) in params.iter().enumerate() {
                if i > 0 {
                    out.push(Tok::p(","));
                }
                out.push(Tok::id(&p.text()));
            }
            out.push(Tok::p(")"));
            out.push(Tok::p("="));
            tokens(body, out);
        }
        DefType(t, a, b) => {
            out.push(Tok::kw(match t {
                Ty::Int => "DEFINT",
                Ty::Sng => "DEFSNG",
                Ty::Dbl => "DEFDBL",
                Ty::Str => "DEFSTR",
            }));
            out.push(Tok::id(&a.to_string()));
            if a != b {
                out.push(Tok::p("-"));
                out.push(Tok::id(&b.to_string()));
            }
        }
        Rem { tick, text } => {
            out.push(Tok::new(if *tick { "'" } else { "REM" }, TK::Kw));
            out.push(Tok::new(text, TK::Rem));
        }
        Tron => out.push(Tok::kw("TRON")),
        Troff => out.push(Tok::kw("TROFF")),
        Clear => out.push(Tok::kw("CLEAR")),
        Run(n) => {
            out.push(Tok::kw("RUN"));
            if let Some(n) = n {
                out.push(lref(*n));
            }
        }
        List(r) => {
            out.push(Tok::kw("LIST"));
            range_tokens(r, out);
        }
        Delete(r) => {
            out.push(Tok::kw("DELETE"));
            range_tokens(r, out);
        }
        Cont => out.push(Tok::kw("CONT")),
        New => out.push(Tok::kw("NEW")),
        Renum(a) => {
            out.push(Tok::kw("RENUM"));
            let last = a.iter().rposition(|x| x.is_some());
            if let Some(last) = last {
                for (i, x) in a.iter().enumerate().take(last + 1) {
                    if i > 0 {
                        out.push(Tok::p(","));
                    }
                    if let Some(n) = x {
                        out.push(Tok::num(&n.to_string()));
                    }
                }
            }
        }
        Empty => {}
    }
}

pub struct Rendered {
    /// text after the line number and its blank (what a direct line would be)
    pub body: String,
    /// full listed text `n body`
    pub text: String,
    /// spans relative to `text` (character offsets)
    pub spans: Vec<Span>,
}

pub fn render_stmts(stmts: &[Stmt]) -> String {
    let mut t = vec![];
    stmts_tokens(stmts, &mut t);
    join(&t).0
}

pub fn render_line(l: &Line) -> Rendered {
    let mut t = vec![];
    stmts_tokens(&l.stmts, &mut t);
    let (body, mut spans) = join(&t);
    let prefix = format!("{} ", l.num);
    let off = prefix.chars().count();
    for s in spans.iter_mut() {
        s.start += off;
        s.end += off;
    }
    Rendered { text: format!("{}{}", prefix, body), body, spans }
}

impl Program {
    pub fn texts(&self) -> Vec<String> {
        self.lines.iter().map(|l| render_line(l).text).collect()
    }
    pub fn text(&self) -> String {
        self.texts().join("\n")
    }
    pub fn line_numbers(&self) -> Vec<u16> {
        self.lines.iter().map(|l| l.num).collect()
    }
}

// ------------------------------------------------------------------ reference mapping

fn map_arm(a: &mut Arm, f: &mut dyn FnMut(u16) -> u16) {
    match a {
        Arm::Line(n) => *n = f(*n),
        Arm::Stmts(v) => {
            for s in v {
                map_refs(s, f)
            }
        }
    }
}

/// Applies `f` to every line-number operand of the statement, in source order.
pub fn map_refs(s: &mut Stmt, f: &mut dyn FnMut(u16) -> u16) {
    use Stmt::*;
    match s {
        If { then_, else_, .. } => {
            map_arm(then_, f);
            if let Some(e) = else_ {
                map_arm(e, f)
            }
        }
        Goto(n) | Gosub(n) => *n = f(*n),
        On { targets, .. } => {
            for t in targets {
                *t = f(*t)
            }
        }
        Restore(Some(n)) | Run(Some(n)) => *n = f(*n),
        List(r) | Delete(r) => {
            if let Some(a) = &mut r.from {
                *a = f(*a)
            }
            if let Some(b) = &mut r.to {
                *b = f(*b)
            }
        }
        _ => {}
    }
}

pub fn refs_of(s: &Stmt) -> Vec<u16> {
    let mut v = vec![];
    let mut c = s.clone();
    map_refs(&mut c, &mut |n| {
        v.push(n);
        n
    });
    v
}

/// Pre-order walk over all statements of a list, including those nested in IF arms.
pub fn walk<'a>(stmts: &'a [Stmt], f: &mut dyn FnMut(&'a Stmt)) {
    for s in stmts {
        f(s);
        if let Stmt::If { then_, else_, .. } = s {
            if let Arm::Stmts(v) = then_ {
                walk(v, f)
            }
            if let Some(Arm::Stmts(v)) = else_ {
                walk(v, f)
            }
        }
    }
}

/// Does the statement list contain any statement with executable code (for TRON)?
pub fn has_code(s: &Stmt) -> bool {
    match s {
        Stmt::Rem { .. } | Stmt::Data(_) | Stmt::Empty => false,
        // `PRINT;` prints nothing at all, not even the newline
        Stmt::Print(items) => items.is_empty() || items.iter().any(|i| !matches!(i, PItem::Semi)),
        _ => true,
    }
}
