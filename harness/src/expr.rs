//! Harness-side expressions: tree, canonical token rendering (minimal parentheses by the
//! manual's 13-level table, left associative) and reference evaluation.

use crate::sem::*;

#[derive(Clone, Debug, PartialEq, Eq, Hash, PartialOrd, Ord)]
pub struct Name {
    pub base: String,
    pub suffix: Option<char>,
}

impl Name {
    pub fn new(s: &str) -> Name {
        let last = s.chars().last();
        match last {
            Some(c @ ('$' | '%' | '!' | '#')) => Name { base: s[..s.len() - 1].to_string(), suffix: Some(c) },
            _ => Name { base: s.to_string(), suffix: None },
        }
    }
    pub fn text(&self) -> String {
        match self.suffix {
            Some(c) => format!("{}{}", self.base, c),
            None => self.base.clone(),
        }
    }
    /// Type by suffix, else by the DEFtype table of the first letter.
    pub fn ty(&self, deftypes: &[Ty; 26]) -> Ty {
        match self.suffix {
            Some('$') => Ty::Str,
            Some('%') => Ty::Int,
            Some('!') => Ty::Sng,
            Some('#') => Ty::Dbl,
            _ => {
                let c = self.base.chars().next().unwrap_or('A');
                deftypes[(c as u8 - b'A') as usize % 26]
            }
        }
    }
}

#[derive(Clone, Debug, PartialEq)]
pub enum E {
    /// numeric literal as written
    Lit(String),
    Str(String),
    Var(Name),
    Elem(Name, Vec<E>),
    Neg(Box<E>),
    Not(Box<E>),
    Bin(Bin, Box<E>, Box<E>),
    Call(&'static str, Vec<E>),
    Fn(Name, Vec<E>),
    Paren(Box<E>),
}

#[derive(Clone, Copy, Debug, PartialEq, Eq)]
pub enum TK {
    Kw,
    Ident,
    Num,
    Str,
    Punct,
    Rem,
    LineRef,
}

#[derive(Clone, Debug, PartialEq)]
pub struct Tok {
    pub s: String,
    pub kind: TK,
}

impl Tok {
    pub fn new(s: &str, kind: TK) -> Tok {
        Tok { s: s.to_string(), kind }
    }
    pub fn kw(s: &str) -> Tok {
        Tok::new(s, TK::Kw)
    }
    pub fn p(s: &str) -> Tok {
        Tok::new(s, TK::Punct)
    }
    pub fn id(s: &str) -> Tok {
        Tok::new(s, TK::Ident)
    }
    pub fn num(s: &str) -> Tok {
        Tok::new(s, TK::Num)
    }
    /// "word-like" in the lister's sense: a blank is shown between two adjacent ones.
    pub fn wordlike(&self) -> bool {
        matches!(self.kind, TK::Kw | TK::Ident | TK::Num | TK::Str | TK::LineRef)
    }
}

#[derive(Clone, Debug, PartialEq)]
pub struct Span {
    pub kind: TK,
    /// character offsets (not bytes) into the rendered text
    pub start: usize,
    pub end: usize,
    pub text: String,
}

/// Joins tokens the way LIST shows them: one blank between adjacent word-like tokens, nothing
/// elsewhere. Also returns the character span of every token.
pub fn join(tokens: &[Tok]) -> (String, Vec<Span>) {
    let mut s = String::new();
    let mut n = 0usize;
    let mut spans = vec![];
    for (i, t) in tokens.iter().enumerate() {
        if i > 0 && tokens[i - 1].wordlike() && t.wordlike() {
            s.push(' ');
            n += 1;
        }
        let len = t.s.chars().count();
        spans.push(Span { kind: t.kind, start: n, end: n + len, text: t.s.clone() });
        s.push_str(&t.s);
        n += len;
    }
    (s, spans)
}

fn prec_of(e: &E) -> u8 {
    match e {
        E::Bin(op, _, _) => op.prec(),
        E::Neg(_) => PREC_NEG,
        E::Not(_) => PREC_NOT,
        _ => 100,
    }
}

pub fn tokens(e: &E, out: &mut Vec<Tok>) {
    match e {
        E::Lit(s) => out.push(Tok::num(s)),
        E::Str(s) => out.push(Tok::new(&format!("\"{}\"", s), TK::Str)),
        E::Var(n) => out.push(Tok::id(&n.text())),
        E::Elem(n, subs) | E::Fn(n, subs) => {
            out.push(Tok::id(&n.text()));
            args(subs, out);
        }
        E::Call(f, a) => {
            out.push(Tok::id(f));
            if !a.is_empty() || *f == "POS" {
                args(a, out);
            }
        }
        E::Paren(x) => {
            out.push(Tok::p("("));
            tokens(x, out);
            out.push(Tok::p(")"));
        }
        E::Neg(x) => {
            out.push(Tok::p("-"));
            child(x, PREC_NEG, false, out);
        }
        E::Not(x) => {
            out.push(Tok::kw("NOT"));
            child(x, PREC_NOT, false, out);
        }
        E::Bin(op, l, r) => {
            child(l, op.prec(), false, out);
            out.push(if op.is_word() { Tok::kw(op.text()) } else { Tok::p(op.text()) });
            child(r, op.prec(), true, out);
        }
    }
}

fn args(a: &[E], out: &mut Vec<Tok>) {
    out.push(Tok::p("("));
    for (i, x) in a.iter().enumerate() {
        if i > 0 {
            out.push(Tok::p(","));
        }
        tokens(x, out);
    }
    out.push(Tok::p(")"));
}

fn child(c: &E, parent: u8, right: bool, out: &mut Vec<Tok>) {
    let p = prec_of(c);
    // A prefix operator in operand position swallows everything of higher precedence to its
    // right, so it is parenthesised whenever its own level is below the parent's.
    let need = p < parent || (right && p == parent);
    if need {
        out.push(Tok::p("("));
        tokens(c, out);
        out.push(Tok::p(")"));
    } else {
        tokens(c, out);
    }
}

pub fn render(e: &E) -> String {
    let mut t = vec![];
    tokens(e, &mut t);
    join(&t).0
}

// ------------------------------------------------------------------ evaluation

#[derive(Clone, Copy, Debug, PartialEq, Eq)]
pub enum Fault {
    Code(BErr),
    /// the manual does not name the code: any BASIC error is accepted
    Any,
}

impl From<BErr> for Fault {
    fn from(b: BErr) -> Fault {
        Fault::Code(b)
    }
}

pub trait Env {
    fn get(&mut self, n: &Name) -> Val;
    fn get_elem(&mut self, n: &Name, subs: &[Val]) -> Result<Val, Fault>;
    fn call_fn(&mut self, n: &Name, args: Vec<Val>, fl: &mut Flags) -> Result<Val, Fault>;
    fn print_col(&self) -> usize;
}

pub fn eval(e: &E, env: &mut dyn Env, fl: &mut Flags) -> Result<Val, Fault> {
    match e {
        E::Lit(s) => literal(s).ok_or(Fault::Any),
        E::Str(s) => Ok(Val::Str(s.clone())),
        E::Var(n) => Ok(env.get(n)),
        E::Elem(n, subs) => {
            let mut v = vec![];
            for s in subs {
                v.push(eval(s, env, fl)?);
            }
            env.get_elem(n, &v)
        }
        E::Fn(n, a) => {
            let mut v = vec![];
            for s in a {
                v.push(eval(s, env, fl)?);
            }
            env.call_fn(n, v, fl)
        }
        E::Call(f, a) => {
            let mut v = vec![];
            for s in a {
                v.push(eval(s, env, fl)?);
            }
            let col = env.print_col();
            match call(f, &v, col, fl) {
                Ok(x) => Ok(x),
                Err(Some(c)) => Err(Fault::Code(c)),
                Err(None) => Err(Fault::Any),
            }
        }
        E::Paren(x) => eval(x, env, fl),
        E::Neg(x) => {
            let v = eval(x, env, fl)?;
            Ok(negate(&v)?)
        }
        E::Not(x) => {
            let v = eval(x, env, fl)?;
            Ok(not(&v)?)
        }
        E::Bin(op, l, r) => {
            let a = eval(l, env, fl)?;
            let b = eval(r, env, fl)?;
            Ok(binop(*op, &a, &b, fl)?)
        }
    }
}

/// Environment with a flat list of preset scalar variables only.
pub struct FlatEnv {
    pub vars: Vec<(Name, Val)>,
    pub deftypes: [Ty; 26],
    pub col: usize,
}

impl FlatEnv {
    pub fn new() -> FlatEnv {
        FlatEnv { vars: vec![], deftypes: [Ty::Sng; 26], col: 0 }
    }
}

impl Env for FlatEnv {
    fn get(&mut self, n: &Name) -> Val {
        for (k, v) in &self.vars {
            if k == n {
                return v.clone();
            }
        }
        Val::default_of(n.ty(&self.deftypes))
    }
    fn get_elem(&mut self, _n: &Name, _s: &[Val]) -> Result<Val, Fault> {
        Err(Fault::Any)
    }
    fn call_fn(&mut self, _n: &Name, _a: Vec<Val>, _fl: &mut Flags) -> Result<Val, Fault> {
        Err(Fault::Code(BErr::UndefinedUserFunction))
    }
    fn print_col(&self) -> usize {
        self.col
    }
}

pub fn depth(e: &E) -> usize {
    match e {
        E::Lit(_) | E::Str(_) | E::Var(_) => 1,
        E::Elem(_, a) | E::Fn(_, a) | E::Call(_, a) => 1 + a.iter().map(depth).max().unwrap_or(0),
        E::Neg(x) | E::Not(x) | E::Paren(x) => 1 + depth(x),
        E::Bin(_, l, r) => 1 + depth(l).max(depth(r)),
    }
}

/// Operators and unary operators used in the tree (for labels / non-triviality).
pub fn ops_used(e: &E, out: &mut Vec<u8>) {
    match e {
        E::Bin(op, l, r) => {
            out.push(op.prec());
            ops_used(l, out);
            ops_used(r, out);
        }
        E::Neg(x) => {
            out.push(PREC_NEG);
            ops_used(x, out)
        }
        E::Not(x) => {
            out.push(PREC_NOT);
            ops_used(x, out)
        }
        E::Paren(x) => ops_used(x, out),
        E::Elem(_, a) | E::Fn(_, a) | E::Call(_, a) => {
            for x in a {
                ops_used(x, out)
            }
        }
        _ => {}
    }
}
