//! verif-check <ID> <quick|thorough>  |  verif-check <ID> --replay <file>
use verif_check::{checks, drive, runner};

fn main() {
    let args: Vec<String> = std::env::args().skip(1).collect();
    if args.is_empty() {
        eprintln!("usage: verif-check <ID> <quick|thorough> | <ID> --replay <file>");
        std::process::exit(2);
    }
    drive::install_panic_hook();
    let id = args[0].clone();
    let prop = match checks::property(&id) {
        Some(p) => p,
        None => {
            eprintln!("no check registered for property {}", id);
            std::process::exit(2);
        }
    };
    let code = runner::main_for(prop, &args[1..]);
    std::process::exit(code);
}
