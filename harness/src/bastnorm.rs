//! Canonical form of the harness's own AST in the same notation as astnorm.rs produces for the
//! implementation's AST. Used (a) as a guard that the canonical printer says what the tree
//! means — a mismatch on the unchanged tree is a harness bug or a parser defect and is always
//! reported — and (b) by C16 to state "all spellings parse to the same statements".

use crate::bast::*;
use crate::expr::*;
use crate::sem::{literal, Ty, Val};

fn letter(n: &str) -> char {
    match n.chars().last() {
        Some('$') => 's',
        Some('!') => 'f',
        Some('#') => 'd',
        Some('%') => 'i',
        _ => 'p',
    }
}

fn tag(n: &str) -> String {
    format!("{}:{}", letter(n), n)
}

fn ptag(n: &str) -> String {
    format!("{}:param:{}", letter(n), n)
}

fn lnum(n: f32) -> String {
    format!("S#{:08x}", n.to_bits())
}

fn val(v: &Val) -> String {
    match v {
        Val::Int(n) => format!("I#{}", n),
        Val::Sng(x) => format!("S#{:08x}", x.to_bits()),
        Val::Dbl(x) => format!("D#{:016x}", x.to_bits()),
        Val::Str(s) => format!("T{:?}", s),
    }
}

pub fn expr(e: &E, params: &[String]) -> String {
    let bin = |n: &str, a: &E, b: &E| format!("{}({},{})", n, expr(a, params), expr(b, params));
    match e {
        E::Lit(s) => match literal(s) {
            Some(v) => val(&v),
            None => format!("?lit:{}", s),
        },
        E::Str(s) => format!("T{:?}", s),
        E::Var(n) => {
            let t = n.text();
            if params.contains(&t) {
                format!("V[{}]", ptag(&t))
            } else {
                format!("V[{}]", tag(&t))
            }
        }
        E::Elem(n, a) | E::Fn(n, a) => format!("A[{}]({})", tag(&n.text()), a.iter().map(|x| expr(x, params)).collect::<Vec<_>>().join(",")),
        E::Call(f, a) => {
            if a.is_empty() && *f != "POS" {
                format!("V[{}]", tag(f))
            } else {
                format!("A[{}]({})", tag(f), a.iter().map(|x| expr(x, params)).collect::<Vec<_>>().join(","))
            }
        }
        E::Paren(x) => expr(x, params),
        E::Neg(x) => format!("Neg({})", expr(x, params)),
        E::Not(x) => format!("Not({})", expr(x, params)),
        E::Bin(op, a, b) => {
            use crate::sem::Bin::*;
            let n = match op {
                Pow => "Pow",
                Mul => "Mul",
                Div => "Div",
                IDiv => "DivInt",
                Mod => "Mod",
                Add => "Add",
                Sub => "Sub",
                Eq => "Eq",
                Ne => "Ne",
                Lt => "Lt",
                Le => "Le",
                Gt => "Gt",
                Ge => "Ge",
                And => "And",
                Or => "Or",
                Xor => "Xor",
                Imp => "Imp",
                Eqv => "Eqv",
            };
            bin(n, a, b)
        }
    }
}

fn ex(e: &E) -> String {
    expr(e, &[])
}

fn lval(l: &Lval) -> String {
    ex(&l.as_expr())
}

fn arm(a: &Arm) -> String {
    match a {
        Arm::Line(n) => format!("Goto({})", lnum(*n as f32)),
        Arm::Stmts(v) => stmts(v),
    }
}

fn range(r: &RangeSpec) -> String {
    let (a, b) = match (r.from, r.dash, r.to) {
        (Some(a), false, _) => (a as f32, a as f32),
        (Some(a), true, Some(b)) => (a as f32, b as f32),
        (Some(a), true, None) => (a as f32, 65529.0),
        (None, true, Some(b)) => (0.0, b as f32),
        (None, _, _) => (0.0, 65529.0),
    };
    format!("{},{}", lnum(a), lnum(b))
}

/// Statements after a remark are not parsed; empty statements leave no trace.
pub fn stmts(v: &[Stmt]) -> String {
    let mut out = vec![];
    for s in v {
        if let Stmt::Rem { .. } = s {
            break;
        }
        if let Stmt::Empty = s {
            continue;
        }
        out.push(stmt(s));
    }
    out.join(";")
}

pub fn stmt(s: &Stmt) -> String {
    use Stmt::*;
    match s {
        Let { lv, e, .. } => format!("Let({};{})", lval(lv), ex(e)),
        Print(items) => {
            let mut v = vec![];
            let mut newline = true;
            for it in items {
                match it {
                    PItem::Semi => newline = false,
                    PItem::Comma => {
                        newline = false;
                        v.push("A[s:TAB](I#-14)".to_string());
                    }
                    PItem::Expr(e) => {
                        newline = true;
                        v.push(ex(e));
                    }
                }
            }
            if newline {
                v.push("T\"\\n\"".to_string());
            }
            format!("Print({})", v.join(","))
        }
        If { c, then_, else_, .. } => format!("If({};[{}];[{}])", ex(c), arm(then_), else_.as_ref().map(arm).unwrap_or_default()),
        For { v, from, to, step } => format!("For(V[{}];{};{};{})", tag(&v.text()), ex(from), ex(to), step.as_ref().map(ex).unwrap_or_else(|| "I#1".into())),
        Next(vs) => {
            if vs.is_empty() {
                "Next(V[p:])".into()
            } else {
                format!("Next({})", vs.iter().map(|n| format!("V[{}]", tag(&n.text()))).collect::<Vec<_>>().join(","))
            }
        }
        While(e) => format!("While({})", ex(e)),
        Wend => "Wend".into(),
        Goto(n) => format!("Goto({})", lnum(*n as f32)),
        Gosub(n) => format!("Gosub({})", lnum(*n as f32)),
        Return => "Return".into(),
        On { sel, gosub, targets } => format!(
            "{}({};{})",
            if *gosub { "OnGosub" } else { "OnGoto" },
            ex(sel),
            targets.iter().map(|n| lnum(*n as f32)).collect::<Vec<_>>().join(",")
        ),
        End => "End".into(),
        Stop => "Stop".into(),
        Input { nocaps, prompt, targets } => format!(
            "Input({};T{:?};{})",
            if *nocaps { "I#0" } else { "I#-1" },
            prompt.clone().unwrap_or_default(),
            targets.iter().map(lval).collect::<Vec<_>>().join(",")
        ),
        Read(t) => format!("Read({})", t.iter().map(lval).collect::<Vec<_>>().join(",")),
        Data(items) => format!(
            "Data({})",
            items
                .iter()
                .map(|d| {
                    if let Some(s) = d.strip_prefix('"') {
                        format!("T{:?}", s.trim_end_matches('"'))
                    } else if let Some(r) = d.strip_prefix('-') {
                        format!("Neg({})", ex(&E::Lit(r.to_string())))
                    } else {
                        ex(&E::Lit(d.clone()))
                    }
                })
                .collect::<Vec<_>>()
                .join(",")
        ),
        Restore(n) => format!("Restore({})", lnum(n.map(|x| x as f32).unwrap_or(-1.0))),
        Dim(a) => format!("Dim({})", a.iter().map(|(n, d)| ex(&E::Elem(n.clone(), d.clone()))).collect::<Vec<_>>().join(",")),
        Erase(ns) => format!("Erase({})", ns.iter().map(|n| format!("V[{}]", tag(&n.text()))).collect::<Vec<_>>().join(",")),
        // the parser stores the operands of SWAP in reverse order
        Swap(a, b) => format!("Swap({},{})", lval(b), lval(a)),
        MidSet { lv, pos, len, e } => format!("Mid({};{};{};{})", lval(lv), ex(pos), len.as_ref().map(ex).unwrap_or_else(|| "I#32767".into()), ex(e)),
        Def { name, params, body } => {
            let ps: Vec<String> = params.iter().map(|p| p.text()).collect();
            format!(
                "Def(V[{}];{};{})",
                tag(&name.text()),
                params.iter().map(|p| format!("V[{}]", ptag(&p.text()))).collect::<Vec<_>>().join(","),
                expr(body, &ps)
            )
        }
        DefType(t, a, b) => format!(
            "{}(V[p:{}],V[p:{}])",
            match t {
                Ty::Int => "Defint",
                Ty::Sng => "Defsng",
                Ty::Dbl => "Defdbl",
                Ty::Str => "Defstr",
            },
            a,
            b
        ),
        Rem { .. } | Empty => String::new(),
        Tron => "Tron".into(),
        Troff => "Troff".into(),
        Clear => "Clear".into(),
        Run(n) => format!("Run({})", lnum(n.map(|x| x as f32).unwrap_or(-1.0))),
        List(r) => format!("List({})", range(r)),
        Delete(r) => format!("Delete({})", range(r)),
        Cont => "Cont".into(),
        New => "New".into(),
        Renum(a) => {
            let d = [10.0f32, 0.0, 10.0];
            let v: Vec<String> = (0..3).map(|i| lnum(a.get(i).copied().flatten().map(|x| x as f32).unwrap_or(d[i]))).collect();
            format!("Renum({})", v.join(","))
        }
    }
}
