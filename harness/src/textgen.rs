//! Text-level generators: token soup over the full vocabulary, arbitrary UTF-8, statement
//! snippets (mostly valid), and mutators. Used by C03, C05, C15, C19.

use crate::tape::Tape;

pub const KEYWORDS: &[&str] = &[
    "PRINT", "?", "LET", "IF", "THEN", "ELSE", "GOTO", "GO TO", "GOSUB", "GO SUB", "RETURN", "FOR", "TO", "STEP", "NEXT", "WHILE", "WEND",
    "ON", "END", "STOP", "CONT", "RUN", "LIST", "NEW", "CLEAR", "DELETE", "RENUM", "DATA", "READ", "RESTORE", "DIM", "ERASE", "SWAP",
    "DEF", "DEFINT", "DEFSNG", "DEFDBL", "DEFSTR", "INPUT", "REM", "'", "TRON", "TROFF", "CLS", "LOAD", "SAVE", "AND", "OR", "XOR", "IMP",
    "EQV", "NOT", "MOD",
];

pub const FUNCS: &[&str] = &[
    "ABS", "ASC", "ATN", "CDBL", "CHR$", "CINT", "COS", "CSNG", "DATE$", "EXP", "FIX", "HEX$", "INKEY$", "INSTR", "INT", "LEFT$", "LEN", "LOG",
    "MID$", "OCT$", "POS", "RIGHT$", "RND", "SGN", "SIN", "SPC", "SQR", "STR$", "STRING$", "TAB", "TAN", "TIME$", "VAL", "FNA", "FNB$", "FN",
];

pub const PUNCT: &[&str] = &["(", ")", ",", ":", ";", "=", "<", ">", "<=", ">=", "<>", "=<", "=>", "><", "+", "-", "*", "/", "\\", "^", "&", "&H", "$", "%", "!", "#", ".", "\"", "_", "@", "~", "[", "]"];

pub const IDENTS: &[&str] = &["A", "B", "I", "J", "X", "A$", "B$", "A%", "I%", "A!", "A#", "AB", "A1", "A1$", "X9#", "Z", "T$", "N", "FNX", "TOTAL", "GO", "SUB", "E", "D", "E1", "D2", "OT", "OTHER", "EXT%", "EW", "HEN", "LSE", "O", "F", "R", "ND"];

pub const NUMBERS: &[&str] = &[
    "0", "1", "2", "10", "20", "100", "255", "256", "32767", "32768", "65529", "65530", "65535", "65536", "99999", "1.5", ".5", "5.", ".", "1E5", "1D5",
    "1E", "1EE", "1E+", "1E-", "1E+5", "1D-3", "1e5", "1d5", "1.5E3", "1..5", "1.2.3", "7%", "7!", "7#", "7$", "1.5%", "1E5%", "1E5#", "12345678", "1234567",
    "1.2345678", "123456789012345678901234567890123456789012", "&H1F", "&HFFFF", "&H8000", "&17", "&8", "&H", "&", "&HG", "&hff", "0.1", "00", "007",
    "1E38", "1E39", "1D308", "1D309", "1E-50", "3.4028235E38",
];

pub const STRINGS: &[&str] = &["\"\"", "\"A\"", "\"HELLO WORLD\"", "\"é\"", "\"日本語\"", "\"a,b\"", "\"😀\"", "\"REM\"", "\"unterminated", "\" \"", "\"'\"", "\":\""];

const MB_CHARS: &[char] = &['é', 'ß', 'Ω', '日', '本', '😀', '\u{0301}', '\u{200B}', '\u{FEFF}', '\u{7f}', '\u{1}', '\t', '\u{a0}'];

pub fn soup_token(t: &mut Tape) -> String {
    match t.weighted(&[6, 4, 5, 4, 4, 2, 1]) {
        0 => t.pick(KEYWORDS).to_string(),
        1 => t.pick(IDENTS).to_string(),
        2 => t.pick(PUNCT).to_string(),
        3 => t.pick(NUMBERS).to_string(),
        4 => t.pick(FUNCS).to_string(),
        5 => t.pick(STRINGS).to_string(),
        _ => t.pick(MB_CHARS).to_string(),
    }
}

pub fn soup(t: &mut Tape, max_tokens: usize) -> String {
    let n = 1 + t.below(max_tokens.max(1));
    let mut s = String::new();
    for i in 0..n {
        if i > 0 {
            match t.below(4) {
                0 | 1 => s.push(' '),
                2 => {}
                _ => {
                    if t.chance(1, 2) {
                        s.push_str("  ")
                    }
                }
            }
        }
        s.push_str(&soup_token(t));
    }
    s
}

pub fn line_number_text(t: &mut Tape) -> String {
    match t.below(8) {
        0 => "0".into(),
        1 => "65529".into(),
        2 => "65530".into(),
        3 => format!("{}", t.u16()),
        4 => format!("{}", t.below(100000)),
        _ => format!("{}", (1 + t.below(40)) * 10),
    }
}

pub fn soup_line(t: &mut Tape, max_tokens: usize) -> String {
    let mut s = String::new();
    if t.chance(1, 2) {
        s.push_str(&line_number_text(t));
        if t.chance(3, 4) {
            s.push(' ');
        }
    }
    s.push_str(&soup(t, max_tokens));
    s
}

pub fn arbitrary_text(t: &mut Tape, max_chars: usize) -> String {
    let n = t.below(max_chars + 1);
    let mut s = String::new();
    for _ in 0..n {
        match t.below(10) {
            0 => s.push(*t.pick(MB_CHARS)),
            1 => {
                if let Some(c) = char::from_u32(t.u32() % 0x11_0000) {
                    s.push(c)
                }
            }
            2 => s.push(t.below(32) as u8 as char),
            _ => s.push((32 + t.below(95)) as u8 as char),
        }
    }
    s
}


/// A numeric-looking text: every documented spelling (decimal, exponent with E e D d, type
/// suffix, & octal and &H hex over all sixteen digits in both cases), with blanks and junk.
pub fn numeric_text(t: &mut Tape) -> String {
    let mut x = String::new();
    x.push_str(*t.pick(&["", "", " ", "  "]));
    match t.below(6) {
        0 | 1 => {
            x.push_str(*t.pick(&["&H", "&h", "&"]));
            let n = 1 + t.below(5);
            for _ in 0..n {
                x.push(*t.pick(&['0', '1', '7', '8', '9', 'A', 'B', 'C', 'D', 'E', 'F', 'a', 'b', 'c', 'd', 'e', 'f', 'G']));
            }
        }
        _ => {
            x.push_str(*t.pick(&["", "", "-", "+"]));
            let n = t.below(9);
            for _ in 0..n {
                x.push(*t.pick(&['0', '1', '2', '5', '9']));
            }
            if t.chance(1, 2) {
                x.push('.');
                let n = t.below(5);
                for _ in 0..n {
                    x.push(*t.pick(&['0', '1', '2', '5', '9']));
                }
            }
            if t.chance(1, 2) {
                x.push(*t.pick(&['E', 'e', 'D', 'd']));
                x.push_str(*t.pick(&["", "", "-", "+"]));
                let n = t.below(3);
                for _ in 0..n {
                    x.push(*t.pick(&['0', '1', '2', '3']));
                }
            }
            x.push_str(*t.pick(&["", "", "", "!", "#", "%"]));
        }
    }
    x.push_str(*t.pick(&["", "", "", " ", "x", "é", ",5", " 1", "E", "D2", "&H1"]));
    x
}

/// Mostly valid statements (from the manual, the repository's tests and the games' idioms).
pub const SNIPPETS: &[&str] = &[
    "PRINT 1", "PRINT \"HELLO\";", "PRINT A;B$,C%", "?A+1", "A=1", "LET A=A+1", "A$=\"X\"+B$", "A%=A%+1", "B=A*2.5", "C#=1/3#", "I=I+1",
    "IF A<5 THEN 10", "IF A THEN PRINT 1 ELSE PRINT 2", "IF A=B GOTO 20", "IF A$=\"\" THEN A$=\"Y\":GOTO 30", "IF I<3 THEN I=I+1:GOTO 10",
    "FOR I=1 TO 3", "FOR J=3 TO 1 STEP -1", "FOR I=1 TO 10 STEP 2:PRINT I;:NEXT", "NEXT", "NEXT I", "NEXT J,I", "WHILE A<3", "WEND", "A=A+1:WEND",
    "GOTO 10", "GOTO 20", "GOSUB 100", "GOSUB 200", "RETURN", "ON A GOTO 10,20,30", "ON I GOSUB 100,200", "END", "STOP", "CONT", "RUN", "RUN 20",
    "LIST", "LIST 10-20", "LIST -20", "LIST 10-", "NEW", "CLEAR", "DELETE 10", "DELETE 10-20", "DELETE -10", "DELETE", "RENUM", "RENUM 100", "RENUM 100,20,5", "RENUM ,,1",
    "DIM Q(5):Q(1,2)=7", "X(3)=1:PRINT X(3,0)", "Q(1,2,3)=1:PRINT Q(1)", "DIM R$(2,2):R$(1)=\"x\":PRINT R$(1,1,1)", "A$=\"HELLO WORLD!\":MID$(A$,14)=\"X\":PRINT A$", "MID$(B$,2,0)=\"\":PRINT B$",
    "MID$(A$,300)=\"X\"", "MID$(A$,1,300)=STRING$(255,\"y\"):PRINT LEN(A$)",
    "DATA 1,2,3", "DATA \"A\",-5,&H10,1.5", "READ A", "READ A$,B%", "RESTORE", "RESTORE 20", "DIM Q(5)", "DIM Q(3,3),R$(2)", "ERASE Q", "Q(1)=5", "PRINT Q(1)",
    "SWAP A,B", "SWAP A$,B$", "SWAP A,B$", "DEF FNA(X)=X*2", "DEF FNB$(S$,N)=LEFT$(S$,N)", "PRINT FNA(3)", "PRINT FNB$(\"ABC\",2)", "DEF FNR(X)=FNR(X)+1", "PRINT FNR(1)",
    "DEFINT A-C", "DEFSTR S", "DEFDBL D", "DEFSNG A-Z", "INPUT A", "INPUT \"NAME\";N$", "INPUT ,A$,B", "INPUT A,B,C$", "REM hello", "' note", "TRON", "TROFF", "CLS",
    "LOAD \"X\"", "SAVE \"X\"", "RUN \"X\"", "MID$(A$,2)=\"ZZ\"", "MID$(A$,1,1)=\"Q\"", "PRINT LEN(A$);MID$(A$,2,1);INSTR(A$,\"B\")", "PRINT TAB(5);1;SPC(2);POS(0)",
    "PRINT STRING$(3,65);CHR$(66);ASC(\"C\")", "PRINT VAL(\"1E2\");STR$(5);HEX$(255);OCT$(8)", "PRINT INT(2.5);FIX(-2.5);SGN(-1);ABS(-3);SQR(4)",
    "PRINT RND(-1);RND(1)", "A$=INKEY$", "PRINT DATE$;TIME$", "PRINT 1/0;1\\0", "PRINT 32767+1", "A%=40000", "PRINT \"A\"+1", "PRINT -(-32767-1)", "PRINT 2^15;2^-1;2^.5",
    "PRINT \"日本語é😀\"", "A$=\"ßΩ\"", "PRINT \"é\":GOTO 20", "IF A$<>\"é\" THEN 20 ELSE 10", "PRINT \"😀\";:ON A GOSUB 100,200", "A$=\"日\":RESTORE 20", "MID$(A$,2)=\"é😀\"",
    "INPUT \"é\";A$,B$", "B$=\"本\":GOSUB 100", "PRINT \"Ω\":RUN 20", "IF A$=\"日本\" GOTO 10",
    "A%=-32767-1:PRINT A% MOD -1", "A%=-32767-1:PRINT A%\\-1", "PRINT (-32767-1) MOD -1;-32768! MOD -1#;-32768.5 MOD -.5", "PRINT 32767 MOD .5;5 MOD 0;5\\0;2^15;(-2)^15",
    "PRINT VAL(\"21.5°C\");VAL(\"€\");VAL(\"1é\")", "PRINT ASC(\"é\");LEN(\"日本\");INSTR(\"aébé\",\"b\")", "PRINT LEFT$(\"日本語\",1);RIGHT$(\"日本語\",1);MID$(\"日本語\",2,1)",
    "FOR I=1 TO 140:PRINT STRING$(250,65);:NEXT", "PRINT TAB(5);1;TAB(200);POS(0),2", "PRINT SPC(250);SPC(250);SPC(250);",
    "A$=STRING$(200,\"é\"):A$=A$+A$", "GOSUB 10", "FOR I=1 TO 1E30", "WHILE 1", "GOTO 10:REM loop", "A=A+1:IF A<1000 THEN 10",
];

pub fn snippet_line(t: &mut Tape) -> String {
    let n = 1 + t.below(3);
    let mut parts = vec![];
    for _ in 0..n {
        parts.push(t.pick(SNIPPETS).to_string());
    }
    parts.join(":")
}

/// A small program out of snippets: numbered lines 10,20,... plus subroutine-ish lines at 100/200.
pub fn snippet_program(t: &mut Tape, max_lines: usize) -> Vec<String> {
    let n = 1 + t.below(max_lines.max(1));
    let mut v = vec![];
    for i in 0..n {
        v.push(format!("{} {}", (i + 1) * 10, snippet_line(t)));
    }
    if t.chance(1, 2) {
        v.push(format!("100 {}:RETURN", snippet_line(t)));
    }
    if t.chance(1, 3) {
        v.push(format!("200 {}:RETURN", snippet_line(t)));
    }
    v
}

pub fn mutate(t: &mut Tape, s: &str) -> String {
    let mut chars: Vec<char> = s.chars().collect();
    let n = 1 + t.below(3);
    for _ in 0..n {
        if chars.is_empty() {
            chars.push('A');
        }
        let i = t.below(chars.len());
        match t.below(6) {
            0 => {
                chars.remove(i);
            }
            1 => {
                let c = chars[i];
                chars.insert(i, c);
            }
            2 => {
                let j = t.below(chars.len());
                chars.swap(i, j);
            }
            3 => {
                let tok: Vec<char> = soup_token(t).chars().collect();
                for (k, c) in tok.into_iter().enumerate() {
                    chars.insert((i + k).min(chars.len()), c);
                }
            }
            4 => {
                chars[i] = *t.pick(&['"', ':', ',', '(', ')', ' ', '=', '0', 'E', '\'', ';']);
            }
            _ => {
                let j = (i + 1 + t.below(6)).min(chars.len());
                chars.drain(i..j);
            }
        }
    }
    chars.into_iter().collect()
}

/// Any kind of line.
pub fn any_line(t: &mut Tape) -> String {
    match t.weighted(&[4, 3, 3, 2, 1]) {
        0 => {
            let mut s = String::new();
            if t.chance(1, 2) {
                s = format!("{} ", line_number_text(t));
            }
            s + &snippet_line(t)
        }
        1 => soup_line(t, 12),
        2 => {
            let base = snippet_line(t);
            let mut s = String::new();
            if t.chance(1, 2) {
                s = format!("{} ", line_number_text(t));
            }
            s + &mutate(t, &base)
        }
        3 => arbitrary_text(t, 60),
        _ => {
            // long lines around the 1024 byte limit
            let unit = t.pick(&["A=A+1:", "PRINT \"é\";", "((((", "-", "1E", "IF A THEN ", "REM ", "\"", "NOT ", "FOR I=1 TO 2:"]).to_string();
            let target = 900 + t.below(300);
            let mut s = String::new();
            if t.chance(1, 2) {
                s.push_str("10 ");
            }
            while s.len() < target {
                s.push_str(&unit);
            }
            s
        }
    }
}
