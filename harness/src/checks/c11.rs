//! C11 — PRINT lays out output exactly as documented.
//! (a) numbers: round-trip + minimality of the printed digits (independent of notation);
//! (b) layout: the reference column model (zones of 14, TAB, SPC, POS, carried column).

use crate::bast::*;
use crate::checks::c01::compare;
use crate::drive::{flat, has_panic, Opts, Term};
use crate::expr::*;
use crate::gen::Generated;
use crate::runner::{Ctx, Outcome, Property, Sub};
use crate::sem::{src_of, Bin, Val};
use crate::tape::{hash_str, Tape};

// ------------------------------------------------------------------ (a) numbers

fn sig_digits(text: &str) -> String {
    // digits of the mantissa without leading/trailing zeros
    let t = text.trim().trim_start_matches('-');
    let mant = t.split(|c| c == 'E' || c == 'e').next().unwrap_or("");
    let d: String = mant.chars().filter(|c| c.is_ascii_digit()).collect();
    let d = d.trim_start_matches('0').trim_end_matches('0').to_string();
    d
}

fn shortest32(x: f32) -> String {
    sig_digits(&format!("{:e}", x))
}

fn shortest64(x: f64) -> String {
    sig_digits(&format!("{:e}", x))
}

/// Judge the text PRINT produced for the value `v`.
fn judge(printed: &str, v: &Val) -> Result<(), String> {
    let t = match printed.strip_suffix('\n') {
        Some(t) => t,
        None => return Err("no newline after the number".into()),
    };
    if !t.ends_with(' ') || t.ends_with("  ") {
        return Err("does not end with exactly one blank".into());
    }
    let body = &t[..t.len() - 1];
    let neg = match v {
        Val::Int(n) => *n < 0,
        Val::Sng(x) => x.is_sign_negative() && !x.is_nan(),
        Val::Dbl(x) => x.is_sign_negative() && !x.is_nan(),
        _ => false,
    };
    let digits = if neg {
        match body.strip_prefix('-') {
            Some(d) => d,
            None => return Err("negative value without a leading minus".into()),
        }
    } else {
        match body.strip_prefix(' ') {
            Some(d) => d,
            None => return Err("non-negative value without a leading blank".into()),
        }
    };
    if digits.starts_with(' ') || digits.starts_with('-') || digits.is_empty() {
        return Err("malformed number text".into());
    }
    match v {
        Val::Int(n) => {
            if digits != format!("{}", (*n as i32).abs()) {
                return Err("Integer digits wrong".into());
            }
        }
        Val::Sng(x) => {
            if x.is_nan() {
                return if digits == "NaN" { Ok(()) } else { Err("NaN spelled differently".into()) };
            }
            if x.is_infinite() {
                return if digits == "inf" { Ok(()) } else { Err("infinity spelled differently from the manual (inf)".into()) };
            }
            let back: f32 = digits.parse().map_err(|_| "the printed text is not a number".to_string())?;
            if back.to_bits() != x.abs().to_bits() {
                return Err(format!("reads back as {:e}, a different Single", back));
            }
            if sig_digits(digits).len() > shortest32(*x).len() {
                return Err(format!("{} significant digits, the shortest round-trip form has {}", sig_digits(digits).len(), shortest32(*x).len()));
            }
        }
        Val::Dbl(x) => {
            if x.is_nan() {
                return if digits == "NaN" { Ok(()) } else { Err("NaN spelled differently".into()) };
            }
            if x.is_infinite() {
                return if digits == "inf" { Ok(()) } else { Err("infinity spelled differently from the manual (inf)".into()) };
            }
            let back: f64 = digits.parse().map_err(|_| "the printed text is not a number".to_string())?;
            if back.to_bits() != x.abs().to_bits() {
                return Err(format!("reads back as {:e}, a different Double", back));
            }
            if sig_digits(digits).len() > shortest64(*x).len() {
                return Err(format!("{} significant digits, the shortest round-trip form has {}", sig_digits(digits).len(), shortest64(*x).len()));
            }
        }
        Val::Str(_) => {}
    }
    Ok(())
}

fn print_value(term: &mut Term, v: &Val) -> String {
    let mut o = Opts::default();
    // the value goes through a variable of its type so that the type is certain
    let (var, probe) = match v {
        Val::Int(_) => ("N%", "PRINT N%"),
        Val::Sng(_) => ("N!", "PRINT N!"),
        Val::Dbl(_) => ("N#", "PRINT N#"),
        Val::Str(_) => ("N$", "PRINT N$"),
    };
    term.line(&format!("{}={}", var, src_of(v)), &mut o);
    let pre = flat(&term.take());
    term.line(probe, &mut o);
    format!("{}{}", pre, flat(&term.take()))
}

fn gen_ints(part: usize, parts: usize, _th: bool, emit: &mut dyn FnMut(&str)) {
    let mut n = -32768i64 + part as i64;
    while n <= 32767 {
        emit(&n.to_string());
        n += parts as i64;
    }
}

fn check_int(item: &str, _ctx: &Ctx) -> Outcome {
    let n: i16 = match item.parse() {
        Ok(n) => n,
        Err(_) => return Outcome::discard("bad item"),
    };
    let mut term = Term::new();
    let got = print_value(&mut term, &Val::Int(n));
    match judge(&got, &Val::Int(n)) {
        Ok(()) => Outcome::pass(n < 0 || n > 9999, hash_str(item)).with_case(format!("PRINT {} -> {:?}", n, got)),
        Err(e) => Outcome::fail("number-format", format!("Integer {}: printed {:?}: {}", n, got, e), format!("N%={}:PRINT N%", n)),
    }
}

fn interesting_f32(t: &mut Tape) -> f32 {
    match t.below(8) {
        0 => f32::from_bits(t.u32()),
        1 => {
            let e = t.range(-45, 38) as i32;
            let base = 10f32.powi(e);
            f32::from_bits((base.to_bits() as i64 + t.range(-2, 2)) as u32)
        }
        2 => {
            // 7 / 9 significant decimal digits
            let d = t.range(1_000_000, 9_999_999) as f32;
            d * 10f32.powi(t.range(-12, 12) as i32)
        }
        3 => *t.pick(&[0.0f32, -0.0, 1.0, -1.0, 0.1, 0.5, 16777216.0, 16777217.0, f32::MAX, f32::MIN_POSITIVE, 1e-45, f32::INFINITY, f32::NEG_INFINITY, f32::NAN, 1e9, 1e10, 999999999.0, 1234567.0, 0.000001]),
        4 => t.range(-100000, 100000) as f32 / 8.0,
        5 => (t.u32() % 1_000_000_000) as f32,
        6 => 1.0 / (1 + t.below(1000)) as f32,
        _ => f32::from_bits(t.u32() & 0x807f_ffff), // subnormals
    }
}

fn interesting_f64(t: &mut Tape) -> f64 {
    match t.below(8) {
        0 => f64::from_bits(t.u64()),
        1 => {
            let e = t.range(-323, 308) as i32;
            let base = 10f64.powi(e);
            f64::from_bits((base.to_bits() as i128 + t.range(-2, 2) as i128) as u64)
        }
        2 => {
            let d = t.range(100_000_000_000_000, 999_999_999_999_999) as f64;
            d * 10f64.powi(t.range(-30, 30) as i32)
        }
        3 => *t.pick(&[0.0f64, -0.0, 1.0, -1.0, 0.1, 0.5, 9007199254740992.0, 9007199254740993.0, f64::MAX, f64::MIN_POSITIVE, 5e-324, f64::INFINITY, f64::NEG_INFINITY, f64::NAN, 1e17, 1e18, 1e16, 123456789012345678.0, 1.0 / 3.0]),
        4 => t.range(-1_000_000_000, 1_000_000_000) as f64 / 64.0,
        5 => (t.u64() % 100_000_000_000_000_000) as f64,
        6 => 1.0 / (1 + t.below(100000)) as f64,
        _ => f64::from_bits(t.u64() & 0x800f_ffff_ffff_ffff),
    }
}

fn check_floats(t: &mut Tape, ctx: &Ctx) -> Outcome {
    let mut term = Term::new();
    let n = 1 + t.below(6);
    let mut case = String::new();
    let mut nt = false;
    for _ in 0..n {
        let v = if t.chance(1, 2) { Val::Sng(interesting_f32(t)) } else { Val::Dbl(interesting_f64(t)) };
        // a variable holding zero is not stored: -0 reads back as 0
        let v = crate::sem::stored(&v);
        let got = print_value(&mut term, &v);
        if let Some(p) = has_panic(&term.log) {
            return Outcome::fail("panic", p, format!("{:?}", v));
        }
        case.push_str(&format!("{:?} -> {:?}; ", v, got));
        if let Err(e) = judge(&got, &v) {
            return Outcome::fail("number-format", format!("{:?} (source {}): printed {:?}: {}", v, src_of(&v), got, e), format!("{}", src_of(&v)));
        }
        nt |= got.contains('E') || got.contains('.');
        // the same number in the other float type, printed right behind it: each text is judged
        // for its own type (what was printed last must not matter)
        let twin = match &v {
            Val::Sng(x) if x.is_finite() => Some(Val::Dbl(*x as f64)),
            Val::Dbl(x) if x.is_finite() && ((*x as f32) as f64) == *x => Some(Val::Sng(*x as f32)),
            _ => None,
        };
        if let Some(tw) = twin {
            let tw = crate::sem::stored(&tw);
            let got_t = print_value(&mut term, &tw);
            if let Err(e) = judge(&got_t, &tw) {
                return Outcome::fail("number-format", format!("{:?} printed right after {:?} (same number, other type): printed {:?}: {}", tw, v, got_t, e), format!("{} then {}", src_of(&v), src_of(&tw)));
            }
        }
        // sign symmetry: the decimal after the sign position is a function of the magnitude alone
        let mirrored = match &v {
            Val::Sng(x) if *x != 0.0 && !x.is_nan() => Some(Val::Sng(-x)),
            Val::Dbl(x) if *x != 0.0 && !x.is_nan() => Some(Val::Dbl(-x)),
            _ => None,
        };
        if let Some(m) = mirrored {
            let got_m = print_value(&mut term, &m);
            let body = |s: &str| s.chars().skip(1).collect::<String>();
            if body(&got) != body(&got_m) {
                return Outcome::fail(
                    "number-format-sign-asymmetry",
                    format!("{:?} printed {:?} but {:?} printed {:?}: the digits after the sign position differ", v, got, m, got_m),
                    format!("{} / {}", src_of(&v), src_of(&m)),
                );
            }
        }
    }
    let o = Outcome::pass(nt, hash_str(&case));
    if ctx.render {
        o.with_case(case)
    } else {
        o
    }
}

// ------------------------------------------------------------------ (b) layout

fn lit(n: i64) -> E {
    if n < 0 {
        E::Neg(Box::new(E::Lit((-n).to_string())))
    } else {
        E::Lit(n.to_string())
    }
}

/// A constant with its sign as the parser sees it: a minus in front of an unsigned literal.
fn signed(s: &str) -> E {
    match s.strip_prefix('-') {
        Some(rest) => E::Neg(Box::new(E::Lit(rest.to_string()))),
        None => E::Lit(s.to_string()),
    }
}

fn item(t: &mut Tape) -> E {
    match t.weighted(&[5, 4, 3, 2, 2, 1, 1]) {
        0 => E::Str(t.pick(&["A", "HELLO", "", "é", "日本語", "x y", "12345678901234", "1234567890123", "*"]).to_string()),
        1 => lit(t.range(-1000, 1000)),
        2 if t.chance(1, 10) => {
            // fractional columns are rounded; beyond ±255 is an error
            E::Call("TAB", vec![signed(t.pick_str(&["14.4", "13.6", "-.4", "-13.6", "256", "-256", "300", "1E5", "20.4#"]))])
        }
        2 => E::Call("TAB", vec![lit(*t.pick(&[0i64, 1, 5, 13, 14, 15, 20, 28, 40, 255, -1, -5, -14]))]),
        3 if t.chance(1, 12) => {
            // counts below 0 (also between -1 and 0: the floor is -1) and above 255 are errors
            E::Call("SPC", vec![signed(t.pick_str(&["-.5", "-1", "-.25#", "-.01", "256", "255.5", "255.99999999#", "300", "-32768"]))])
        }
        3 => {
            if t.chance(1, 5) {
                // a fractional count is floored, in the type it comes in
                E::Call("SPC", vec![E::Lit(t.pick(&["2.99999999#", "2.5", "0.99999999#", "3.9999999", "13.99999999#", "1D0"]).to_string())])
            } else {
                E::Call("SPC", vec![lit(t.range(0, 20))])
            }
        }
        4 => E::Call("POS", vec![lit(0)]),
        5 => E::Lit(t.pick(&["2.5", "0.1", "1E10", "123456789", "1.5#", "32768"]).to_string()),
        _ => E::Bin(Bin::Add, Box::new(E::Str("a".into())), Box::new(E::Bin(Bin::Add, Box::new(E::Call("CHR$", vec![lit(10)])), Box::new(E::Str("bc".into()))))),
    }
}

fn print_list(t: &mut Tape) -> Stmt {
    let n = t.below(6);
    let mut items = vec![];
    for i in 0..n {
        let e = item(t);
        if i > 0 {
            match t.below(4) {
                0 => items.push(PItem::Semi),
                1 | 2 => items.push(PItem::Comma),
                _ => {
                    // juxtaposition where it is unambiguous
                    if !matches!(e, E::Str(_) | E::Call(_, _)) || matches!(items.last(), Some(PItem::Expr(E::Call("POS", _)))) {
                        items.push(PItem::Semi)
                    }
                }
            }
        }
        if t.chance(1, 10) && i > 0 {
            items.push(PItem::Comma); // a second separator: `,,`
        }
        items.push(PItem::Expr(e));
    }
    match t.below(4) {
        0 => items.push(PItem::Semi),
        1 => items.push(PItem::Comma),
        _ => {}
    }
    Stmt::Print(items)
}

fn check_layout(t: &mut Tape, ctx: &Ctx) -> Outcome {
    let mut prog = Program::default();
    let nlines = 2 + t.below(8);
    let mut num = 10u16;
    let tron_inside = t.chance(1, 6);
    let mut has_input = false;
    let mut carried = false;
    let mut n_stops = 0usize;
    let mut has_error = false;
    for i in 0..nlines {
        let k = 1 + t.below(3);
        let mut stmts = vec![];
        for _ in 0..k {
            match t.below(12) {
                0 if !has_input => {
                    has_input = true;
                    stmts.push(Stmt::Input { nocaps: false, prompt: Some("N".into()), targets: vec![Lval::Var(Name::new("A"))] });
                }
                1 if tron_inside => stmts.push(if t.chance(1, 2) { Stmt::Tron } else { Stmt::Troff }),
                3 if t.chance(1, 3) => stmts.push(Stmt::Clear), // CLEAR has nothing to do with the cursor
                4 if t.chance(1, 3) => {
                    // a stop in mid-line: the break message starts on a fresh line and CONT goes on
                    // from column 0
                    stmts.push(Stmt::Stop);
                    n_stops += 1;
                }
                2 if i + 1 < nlines && t.chance(1, 3) => {
                    // an error in the middle of a line: the message starts on a fresh line
                    stmts.push(Stmt::Let { lv: Lval::Var(Name::new("E%")), e: E::Bin(Bin::Add, Box::new(E::Lit("32767".into())), Box::new(E::Lit("1".into()))), kw: false });
                    has_error = true;
                }
                _ => {
                    let p = print_list(t);
                    let text = render_stmts(&[p.clone()]);
                    if ["TAB(256)", "TAB(-256)", "TAB(300)", "TAB(1E5)", "SPC(-", "SPC(256)", "SPC(300)"].iter().any(|x| text.contains(x)) {
                        has_error = true;
                    }
                    if let Stmt::Print(items) = &p {
                        if matches!(items.last(), Some(PItem::Semi) | Some(PItem::Comma)) {
                            carried = true;
                        }
                    }
                    stmts.push(p);
                }
            }
        }
        prog.lines.push(Line { num, stmts });
        num += 10;
    }
    let g = Generated { prog, replies: vec!["5".into(), "6".into()], probes: vec![] };
    let mut directs = vec![];
    if t.chance(1, 5) {
        directs.push(vec![Stmt::Tron]);
    }
    directs.push(vec![Stmt::Run(None)]);
    // (CONT after an error is not part of the generated fragment)
    for _ in 0..(if has_error { 0 } else { n_stops.min(3) }) {
        directs.push(vec![Stmt::Cont]);
    }
    // the column is 0 again for the next run; a second run must look the same
    directs.push(vec![Stmt::Run(None)]);
    directs.push(vec![print_list(t)]);
    if t.chance(1, 3) {
        // a run started in mid-line: RUN clears variables, not the cursor column
        directs.push(vec![print_list(t), Stmt::Run(None)]);
        directs.push(vec![print_list(t), Stmt::Clear, print_list(t)]);
    }
    let case = format!("{}\n{}", g.prog.text(), directs.iter().map(|d| format!("> {}", render_stmts(d))).collect::<Vec<_>>().join("\n"));
    crate::runner::note_case(&case);
    match compare(&g, &directs, 5000) {
        Ok((mut labels, _)) => {
            if carried {
                labels.push("column carried over by a trailing separator");
            }
            let o = Outcome::pass(carried, hash_str(&case)).with_labels(labels);
            if ctx.render {
                o.with_case(case)
            } else {
                o
            }
        }
        Err(Ok(why)) => Outcome::discard(why),
        Err(Err((c, d))) => Outcome::fail(&c, d, case),
    }
}

// ------------------------------------------------------------------ INKEY$ echoes nothing

/// Polling the keyboard moves nothing on the screen: a program with `A$=INKEY$` between its PRINT
/// statements lays out its output exactly like the same program with `A$="<the key>"`.
fn check_inkey(t: &mut Tape, ctx: &Ctx) -> Outcome {
    let key = *t.pick(&["", "K", "é", "\r"]);
    let before = print_list(t);
    let after = print_list(t);
    let after2 = print_list(t);
    let same_line = t.chance(1, 2);
    let mk = |mid: &str| -> Vec<String> {
        let b = render_stmts(&[before.clone()]);
        let a = render_stmts(&[after.clone()]);
        let a2 = render_stmts(&[after2.clone()]);
        if same_line {
            vec![format!("10 {}:{}:{}", b, mid, a), format!("20 {}", a2)]
        } else {
            vec![format!("10 {}", b), format!("20 {}", mid), format!("30 {}", a), format!("40 {}", a2)]
        }
    };
    let with_inkey = mk("A$=INKEY$");
    let lit = if key == "\r" { "A$=CHR$(13)".to_string() } else { format!("A$=\"{}\"", key) };
    let with_let = mk(&lit);
    let run = |lines: &[String], keys: &[&str]| -> Option<String> {
        let mut term = Term::new();
        let mut o = Opts::default();
        o.keys = keys.iter().map(|k| k.to_string()).collect();
        for l in lines {
            term.line(l, &mut o);
        }
        if !term.take().is_empty() {
            return None;
        }
        term.line("RUN", &mut o);
        let evs = term.take();
        if has_panic(&evs).is_some() {
            return Some(flat(&evs));
        }
        term.line("PRINT \"<\";A$;\">\";POS(0)", &mut o);
        Some(format!("{}{}", crate::drive::printed(&evs), flat(&term.take())))
    };
    let case = format!("{}\n(key handed to INKEY$: {:?}) versus\n{}", with_inkey.join("\n"), key, with_let.join("\n"));
    crate::runner::note_case(&case);
    match (run(&with_inkey, &[key]), run(&with_let, &[])) {
        (Some(a), Some(b)) => {
            if a != b {
                return Outcome::fail("inkey-moved-the-cursor", format!("with INKEY$: {:?}\nwith the assignment: {:?}", a, b), case);
            }
            let o2 = Outcome::pass(true, hash_str(&case));
            if ctx.render {
                o2.with_case(case)
            } else {
                o2
            }
        }
        _ => Outcome::discard("program entry printed something"),
    }
}


// ------------------------------------------------------------------ LIST and CLS leave the cursor in column 0

/// A listing ends every line it shows and CLS homes the cursor: whatever was pending on the line,
/// the statements behind them lay out their output as they would from column 0.
fn check_home(t: &mut Tape, ctx: &Ctx) -> Outcome {
    let before = render_stmts(&[print_list(t)]);
    let after = render_stmts(&[print_list(t)]);
    let after2 = render_stmts(&[print_list(t)]);
    let mid = *t.pick(&["LIST 90", "CLS", "LIST 90-91", "LIST 90:CLS"]);
    let same_line = t.chance(1, 2);
    let tail = "PRINT \"<\";POS(0)";
    let prog_a: Vec<String> = if same_line {
        vec![format!("10 {}:{}:{}", before, mid, after), format!("20 {}:{}", after2, tail), "30 END".into(), "90 REM z".into()]
    } else {
        vec![format!("10 {}", before), format!("12 {}", mid), format!("14 {}", after), format!("20 {}:{}", after2, tail), "30 END".into(), "90 REM z".into()]
    };
    let prog_b: Vec<String> = vec![format!("14 {}", after), format!("20 {}:{}", after2, tail), "30 END".into(), "90 REM z".into()];
    let prog_c: Vec<String> = vec![format!("10 {}", before), "30 END".into(), "90 REM z".into()];
    let run = |lines: &[String]| -> Option<String> {
        let mut term = Term::new();
        let mut o = Opts::default();
        for l in lines {
            term.line(l, &mut o);
        }
        if !term.take().is_empty() {
            return None;
        }
        term.line("RUN", &mut o);
        let evs = term.take();
        if has_panic(&evs).is_some() || flat(&evs).contains('?') {
            return None;
        }
        Some(crate::drive::printed(&evs))
    };
    let case = format!("{}\n--- its tail must lay out like\n{}", prog_a.join("\n"), prog_b.join("\n"));
    crate::runner::note_case(&case);
    match (run(&prog_a), run(&prog_b), run(&prog_c)) {
        (Some(a), Some(b), Some(c)) => {
            // with output pending at its end, the lone first line is closed by the newline that
            // the end of a run forces: that one is not part of the text in front of LIST / CLS
            let c = if before.ends_with(';') || before.ends_with(',') { c.strip_suffix('\n').unwrap_or(&c).to_string() } else { c };
            if !a.starts_with(&c) || a[c.len()..] != b {
                return Outcome::fail("list-or-cls-left-a-stale-column", format!("whole output {:?}\nthe part before {} is {:?}; the rest should be {:?}", a, mid, c, b), case);
            }
            let pending = !c.is_empty() && !c.ends_with('\n');
            let o2 = Outcome::pass(pending, hash_str(&case)).with_labels(if pending { vec!["output pending on the line when LIST / CLS ran"] } else { vec![] });
            if ctx.render {
                o2.with_case(case)
            } else {
                o2
            }
        }
        _ => Outcome::discard("an error or a refused line"),
    }
}

// ------------------------------------------------------------------ the manual's examples

const MANUAL: &[(&str, &str)] = &[
    ("PRINT \"AB\";:CLS:PRINT ,\"X\";POS(0)", "AB«cls»              X 15 \n"),
    ("PRINT ,\"Mar\",\"Apr\":?\"Bought\",100,120:?\"Sold\",-97,-123", "              Mar           Apr\nBought         100           120 \nSold          -97           -123 \n"),
    ("PRINT 1.99 TAB(20) \"furlongs per year\"", " 1.99               furlongs per year\n"),
    ("PRINT \"<\"SPC(5)\">\"", "<     >\n"),
    ("PRINT \"     \";POS()", "      5 \n"),
    ("PRINT 10/0;-10/0", " inf -inf \n"),
    ("PRINT 10/3;1/CDBL(3);1/CSNG(3#)", " 3.3333333  0.3333333333333333  0.33333334 \n"),
    ("PRINT 1;2;-3;\"x\";4", " 1  2 -3 x 4 \n"),
    ("PRINT \"12345678901234\",1", "12345678901234               1 \n"),
    ("PRINT \"1234567890123\",1", "1234567890123  1 \n"),
    ("PRINT TAB(3);\"a\";TAB(2);\"b\";TAB(-4);\"c\"", "   ab   c\n"),
];

fn gen_manual(part: usize, parts: usize, _th: bool, emit: &mut dyn FnMut(&str)) {
    for (i, (a, _)) in MANUAL.iter().enumerate() {
        if i % parts == part {
            emit(a);
        }
    }
}

fn check_manual(item: &str, _ctx: &Ctx) -> Outcome {
    let want = match MANUAL.iter().find(|(a, _)| *a == item) {
        Some((_, b)) => b.to_string(),
        None => return Outcome::discard("no expectation"),
    };
    let mut term = Term::new();
    let mut o = Opts::default();
    term.line(item, &mut o);
    let got = flat(&term.take());
    if got != want {
        return Outcome::fail("documented-layout", format!("got  {:?}\nwant {:?}", got, want), item.to_string());
    }
    Outcome::pass(true, hash_str(item)).with_case(item.to_string())
}

pub fn property() -> Property {
    Property {
        id: "C11",
        rule: "Cases: (integers) all 65536 Integers, exhaustive; (floats) proptest-generated Singles and Doubles: random bit patterns, neighbours of every power of ten, 7/9/15/17-digit decimals, subnormals, +-0, inf, NaN, n/8 and n/64 fractions, reciprocals — each stored in a typed variable and printed. \
Number oracle: the text begins with a blank or a minus sign, ends with exactly one blank, the digits in between parse (correctly rounded, harness side) to the same bits of that type and have no more significant digits than the shortest round-trip representation; inf / NaN as in the manual; and (sign symmetry) x and -x print the same text behind the sign position. \
(layout) proptest-generated programs of PRINT statements whose items are strings (ASCII, multi-byte, with an embedded line feed), numbers, TAB(n) for n in {0,1,5,13,14,15,20,28,40,255,-1,-5,-14}, SPC, POS(0), separated by ; , juxtaposition, doubled commas, with and without trailing separator, across statements and lines, with INPUT, TRON trace, an error in mid-line, two runs in a row, a direct PRINT, CLEAR between PRINT statements and a RUN started in mid-line (neither touches the cursor). \
Layout oracle: the reference column model (characters since the last newline; `,` pads to the next multiple of 14 with at least one blank; TAB pads to the column if it is to the right, negative TAB to the next multiple; SPC n blanks; POS the column; trace text counts; INPUT and errors return to column 0); whole transcripts compared. The manual's own examples are checked literally. (list_and_cls_home_the_cursor) a print list, then LIST n / CLS, then two more print lists and POS(0): the text behind LIST / CLS equals the text the same statements print from column 0. \
Non-trivial: an Integer that needs a sign or > 4 digits / a float printed with a fraction or exponent / a layout case in which a trailing separator carried the column into the next statement. Distinct by value / program.",
        assumptions: vec![
            "the layout model prints numbers with the reference formatter; the number sub-checks validate that text independently of any notation choice (where plain notation ends and E-notation begins is not documented and not asserted, only that it does not depend on the sign)",
            "LIST ends every line it shows and CLS homes the cursor: behind either the true column is 0 (sub-check list_and_cls_home_the_cursor; repaired as F37)",
        ],
        subs: vec![
            Sub::items("manual_examples", gen_manual, check_manual, false),
            Sub::items("all_integers", gen_ints, check_int, true),
            Sub::tape("floats", check_floats, 150_000, 8_000_000, 120),
            Sub::tape("layout_programs", check_layout, 60_000, 2_000_000, 500),
            Sub::tape("inkey_keeps_the_column", check_inkey, 20_000, 500_000, 200),
            Sub::tape("list_and_cls_home_the_cursor", check_home, 20_000, 500_000, 200),
        ],
    }
}
