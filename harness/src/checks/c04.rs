//! C04 — what runs is always the program that LIST shows.
//! Differential oracle: the history-laden runtime vs a fresh runtime fed its listing.

use crate::bast::*;
use crate::drive::{flat, has_panic, printed, Ev, Opts, Term};
use crate::gen::{self, GenOpts};
use crate::runner::{Ctx, Outcome, Property, Sub};
use crate::tape::{hash_str, Tape};

fn listing(term: &Term) -> Vec<String> {
    term.listing_text()
}

struct Hist {
    term: Term,
    script: String,
    replies: Vec<String>,
    /// a run was stopped inside the program (STOP/END/interrupt/error) and no RUN/CLEAR/NEW since
    stopped_run: bool,
    effective_edit_after_stop: bool,
    effective_edit_after_compile: bool,
    compiled: bool,
    /// trace mode as the history left it (TRON typed; NEW and loads switch it off)
    tron: bool,
    /// a get_listing() result the host kept from an earlier moment of the history
    snapshot: Option<basic::mach::Listing>,
    labels: Vec<&'static str>,
}

impl Hist {
    fn note(&mut self, s: &str) {
        self.script.push_str(s);
        self.script.push('\n');
    }
    fn opts(&self, max_calls: usize) -> Opts {
        let mut o = Opts::default();
        o.replies = self.replies.iter().cloned().collect();
        o.max_calls = max_calls;
        o
    }
    /// An editing line: returns whether the listing changed.
    fn edit(&mut self, line: &str) -> bool {
        let before = listing(&self.term);
        self.note(&format!("enter {:?}", line));
        let mut o = self.opts(2000);
        self.term.line(line, &mut o);
        let after = listing(&self.term);
        let eff = before != after;
        if eff {
            if self.stopped_run {
                self.effective_edit_after_stop = true;
            }
            if self.compiled {
                self.effective_edit_after_compile = true;
            }
        }
        eff
    }
}

fn pick_line_no(t: &mut Tape, existing: &[u16]) -> u16 {
    match t.below(5) {
        0 | 1 if !existing.is_empty() => *t.pick(existing),
        2 if !existing.is_empty() => t.pick(existing).saturating_add(1).min(65529),
        3 => *t.pick(&[0u16, 1, 5, 15, 25, 65529]),
        _ => (t.below(60) * 10) as u16,
    }
}

fn numbers_of(term: &Term) -> Vec<u16> {
    term.rt.get_listing().lines().filter_map(|l| l.number()).collect()
}

/// Generates and plays a history. Err = violation found on the way (clause C or panic).
fn play_history(t: &mut Tape, h: &mut Hist, want_stop: bool) -> Result<(), (String, String)> {
    let mut o1 = GenOpts::plain();
    o1.stop = true;
    o1.size = 14;
    let g1 = gen::program(t, &o1);
    let g2 = gen::program(t, &o1);
    h.replies = g1.replies.clone();
    if h.replies.is_empty() {
        h.replies = vec!["1".into(), "2,x".into(), "3".into(), "x".into()];
    }
    // initial program: typed in (possibly out of order) or loaded
    let mut texts = g1.prog.texts();
    if t.chance(1, 3) {
        let mut l = basic::mach::Listing::default();
        for x in &texts {
            let _ = l.load_str(x);
        }
        h.note(&format!("set_listing({} lines):\n{}", texts.len(), texts.join("\n")));
        h.term.rt.set_listing(l, false);
        let mut o = h.opts(100);
        h.term.run(&mut o);
    } else {
        if t.chance(1, 3) {
            texts.reverse();
        }
        for x in &texts {
            h.edit(x);
        }
    }
    h.term.take();
    let spare: Vec<Line> = g2.prog.lines.clone();
    let nops = 1 + t.below(14);
    for _ in 0..nops {
        if let Some(m) = has_panic(&h.term.log) {
            return Err(("panic".into(), m));
        }
        h.term.take();
        let nums = numbers_of(&h.term);
        match t.weighted(&[6, 2, 2, 2, 4, 3, 1, 1, 3]) {
            8 => {
                // re-enter a stored line: verbatim, or with the letters inside its string
                // literals / remark in the other case (the smallest possible effective edit)
                let lines = listing(&h.term);
                if lines.is_empty() {
                    continue;
                }
                let old = lines[t.below(lines.len())].clone();
                let mut in_str = false;
                let mut rem = false;
                let flip = t.chance(3, 4);
                let mut new = String::new();
                let up = old.to_ascii_uppercase();
                for (i, c) in old.char_indices() {
                    if c == '"' {
                        in_str = !in_str;
                    }
                    if !in_str && (up[i..].starts_with("REM") || c == '\'') {
                        rem = true;
                    }
                    if flip && (in_str || (rem && !up[i..].starts_with("REM") && i > 0 && !up[..i].ends_with("RE") && !up[..i].ends_with("R"))) && c.is_ascii_alphabetic() {
                        new.push(if c.is_ascii_uppercase() { c.to_ascii_lowercase() } else { c.to_ascii_uppercase() });
                    } else {
                        new.push(c);
                    }
                }
                if h.edit(&new) {
                    h.labels.push("case-only edit inside a literal or remark");
                } else {
                    h.labels.push("a stored line re-entered verbatim");
                }
            }
            0 => {
                // insert / replace with a line of the other program (references may dangle)
                if spare.is_empty() {
                    continue;
                }
                let src = &spare[t.below(spare.len())];
                let n = pick_line_no(t, &nums);
                let text = format!("{} {}", n, render_stmts(&src.stmts));
                if text.len() < 900 {
                    h.edit(&text);
                }
            }
            1 => {
                let n = pick_line_no(t, &nums);
                let existed = nums.contains(&n);
                let eff = h.edit(&format!("{}", n));
                if !existed && h.compiled && !eff {
                    h.labels.push("bare number for an absent line after a compile");
                }
            }
            2 => {
                let a = pick_line_no(t, &nums);
                let b = pick_line_no(t, &nums);
                let (a, b) = (a.min(b), a.max(b));
                let cmd = match t.below(4) {
                    0 => format!("DELETE {}", a),
                    1 => format!("DELETE {}-{}", a, b),
                    2 => format!("DELETE -{}", a),
                    _ => format!("DELETE {}-", b),
                };
                if h.edit(&cmd) && h.stopped_run {
                    h.labels.push("DELETE after a stopped run");
                }
            }
            3 => {
                let cmd = t.pick(&["RENUM", "RENUM 100", "RENUM 5,0,5", "RENUM 1000,20", "RENUM 7,,3"]).to_string();
                if h.edit(&cmd) {
                    h.labels.push("RENUM changed the numbers");
                }
            }
            4 => {
                // a direct statement that is not an editing command must not touch the listing
                let before = listing(&h.term);
                let cmd = t
                    .pick(&["PRINT 1", "A=5:B$=\"X\"", "PRINT A;B$", "FOR I=1 TO 2:NEXT", "DIM Z9(3)", "CLEAR", "X=X+1:PRINT X", "TROFF", "DEFINT Q", "READ A", "RESTORE", "SWAP A,B", "GOSUB 65000", "?\"é\"", "LIST 5-6", "IF 1 THEN PRINT 2", "IF 1 THEN DATA 77", "IF 0 THEN PRINT 1 ELSE DATA 78,79", "DATA 80"])
                    .to_string();
                h.note(&format!("enter {:?}", cmd));
                let mut o = h.opts(400);
                h.term.line(&cmd, &mut o);
                if t.chance(1, 3) {
                    h.note("(the host keeps the result of get_listing())");
                    h.snapshot = Some(h.term.rt.get_listing());
                }
                h.compiled = true;
                if cmd == "TROFF" {
                    h.tron = false;
                }
                if cmd == "CLEAR" {
                    h.stopped_run = false;
                    h.effective_edit_after_stop = false;
                }
                let after = listing(&h.term);
                if before != after {
                    return Err(("direct-statement-changed-the-listing".into(), format!("{:?} changed the stored program\nbefore: {:?}\nafter:  {:?}", cmd, before, after)));
                }
            }
            5 => {
                // a (partial) run
                let cmd = if !nums.is_empty() && t.chance(1, 4) { format!("RUN {}", t.pick(&nums)) } else { "RUN".to_string() };
                let interrupt_at = if t.chance(1, 3) { Some(1 + t.below(40)) } else { None };
                h.note(&format!("enter {:?} (interrupt after {:?} calls)", cmd, interrupt_at));
                let mut o = h.opts(3000);
                o.quantum = if interrupt_at.is_some() { 3 } else { 5000 };
                h.term.enter_raw(&cmd);
                let mut n = 0;
                loop {
                    if Some(n) == interrupt_at {
                        h.term.interrupt();
                    }
                    if h.term.step(&mut o) || h.term.dead {
                        break;
                    }
                    n += 1;
                    if n > 3000 {
                        h.term.interrupt();
                        let mut o2 = Opts::default();
                        h.term.run(&mut o2);
                        break;
                    }
                }
                h.compiled = true;
                h.effective_edit_after_compile = false;
                h.effective_edit_after_stop = false;
                let out = flat(&h.term.log);
                h.stopped_run = out.contains("?BREAK IN") || h.term.rt.verif_probe().stack_len > 0;
            }
            6 => match t.below(4) {
                0 => {
                    h.edit("NEW");
                    h.stopped_run = false;
                    h.tron = false;
                }
                1 => {
                    // a load in mid-history: the other program replaces the stored one
                    let before = listing(&h.term);
                    let mut l = basic::mach::Listing::default();
                    let mut texts: Vec<String> = g2.prog.texts();
                    match t.below(4) {
                        // an empty file
                        0 => texts.clear(),
                        // the listing as the host got it from get_listing() earlier (what SAVE hands
                        // out), given back unchanged
                        1 if h.snapshot.is_some() => {
                            l = h.snapshot.clone().unwrap();
                            texts = l.lines().map(|x| x.to_string()).collect();
                        }
                        _ => {
                            for x in &texts {
                                let _ = l.load_str(x);
                            }
                        }
                    }
                    h.note(&format!("set_listing({} lines):\n{}", texts.len(), texts.join("\n")));
                    h.term.rt.set_listing(l, false);
                    let mut o = h.opts(100);
                    h.term.run(&mut o);
                    h.term.take();
                    if before != listing(&h.term) {
                        if h.compiled {
                            h.effective_edit_after_compile = true;
                        }
                        if h.stopped_run {
                            h.effective_edit_after_stop = true;
                        }
                        h.labels.push("load in mid-history");
                    }
                    h.stopped_run = false;
                    h.tron = false;
                }
                2 => {
                    h.note("enter \"TRON\"");
                    let mut o = h.opts(100);
                    h.term.line("TRON", &mut o);
                    h.tron = true;
                    h.labels.push("TRON typed during the history");
                }
                _ => {}
            },
            _ => {
                // CONT a few times (walks further into the program)
                h.note("enter \"CONT\"");
                let mut o = h.opts(3000);
                h.term.line("CONT", &mut o);
            }
        }
    }
    if want_stop && !h.stopped_run {
        // make sure a run is stopped inside a subroutine/loop: run until the first STOP or interrupt
        h.note("enter \"RUN\" (interrupt after 25 calls)");
        let mut o = h.opts(3000);
        o.quantum = 2;
        h.term.enter_raw("RUN");
        for n in 0..3000 {
            if n == 25 {
                h.term.interrupt();
            }
            if h.term.step(&mut o) || h.term.dead {
                break;
            }
        }
        h.compiled = true;
        h.effective_edit_after_compile = false;
        h.effective_edit_after_stop = false;
        let out = flat(&h.term.log);
        h.stopped_run = out.contains("?BREAK IN");
    }
    if let Some(m) = has_panic(&h.term.log) {
        return Err(("panic".into(), m));
    }
    h.term.take();
    Ok(())
}

/// Reads every DATA constant of the stored program from the start (until OUT OF DATA).
const DATA_PROBE: &str = "RESTORE:FOR Z9=1 TO 60:READ Z8:PRINT Z8;:NEXT";

fn new_hist() -> Hist {
    Hist { term: Term::new(), script: String::new(), replies: vec![], stopped_run: false, effective_edit_after_stop: false, effective_edit_after_compile: false, compiled: false, tron: false, snapshot: None, labels: vec![] }
}

// ------------------------------------------------------------------ A: RUN equals RUN in a fresh interpreter

fn check_run_fresh(t: &mut Tape, ctx: &Ctx) -> Outcome {
    let mut h = new_hist();
    if let Err((c, d)) = play_history(t, &mut h, false) {
        return Outcome::fail(&c, d, h.script);
    }
    let lines = listing(&h.term);
    let nums = numbers_of(&h.term);
    let cmd = if !nums.is_empty() && t.chance(1, 3) { format!("RUN {}", t.pick(&nums)) } else { "RUN".to_string() };
    // the RUN may stand behind another statement on the same direct line
    let cmd = format!("{}{}", t.pick(&["", "", "", "LIST:", "LIST 10-20:", "TROFF:", "Q9=0:", "PRINT \"GO\":"]), cmd);
    // an edit and a RUN on one direct line: whether DELETE returns to the prompt or lets the line go
    // on is not documented, but if the RUN happens it runs the program without the deleted line
    if !nums.is_empty() && t.chance(1, 10) {
        let n = *t.pick(&nums);
        let cmd2 = format!("DELETE {}:RUN", n);
        h.note(&format!("enter {:?}   <- prints nothing, or what RUN prints for the listing without line {}", cmd2, n));
        crate::runner::note_case(&h.script);
        let mut o = h.opts(4000);
        let end_h = h.term.line(&cmd2, &mut o);
        let ev_h = h.term.take();
        if let Some(m) = has_panic(&ev_h) {
            return Outcome::fail("panic", m, h.script);
        }
        let mut f = Term::new();
        let mut of = h.opts(4000);
        for l in lines.iter().filter(|l| !l.starts_with(&format!("{} ", n))) {
            f.enter_raw(l);
            f.run(&mut of);
        }
        if h.tron {
            f.line("TRON", &mut of);
        }
        f.take();
        let end_f = f.line("RUN", &mut of);
        let ev_f = f.take();
        let case = format!("{}\nlisting before that line:\n{}", h.script, lines.join("\n"));
        let nothing = ev_h.is_empty();
        if !nothing && (ev_h != ev_f || end_h != end_f) {
            return Outcome::fail(
                "run-differs-from-fresh-interpreter",
                format!("{} after the history:\n{}\n--- RUN in a fresh interpreter holding the listing without line {}:\n{}", cmd2, flat(&ev_h), n, flat(&ev_f)),
                case,
            );
        }
        let mut labels = h.labels.clone();
        labels.push("DELETE n:RUN on one direct line");
        labels.sort();
        labels.dedup();
        return Outcome::pass(true, hash_str(&case)).with_labels(labels);
    }
    h.note(&format!("enter {:?}   <- compared with a fresh interpreter holding the listing", cmd));
    crate::runner::note_case(&h.script);
    let mut o = h.opts(4000);
    let end_h = h.term.line(&cmd, &mut o);
    let ev_h = h.term.take();
    let mut probes_h = String::new();
    for p in ["PRINT A;B;C;A%;B%;A#;X;Y%;Z#", "PRINT A$;\"|\";B$;\"|\";S$;I;J%;K;F9%", DATA_PROBE] {
        h.term.line(p, &mut o);
        probes_h.push_str(&flat(&h.term.take()));
    }
    let mut f = Term::new();
    let mut of = h.opts(4000);
    for l in &lines {
        f.enter_raw(l);
        f.run(&mut of);
    }
    let pre = f.take();
    if h.tron {
        // trace mode is the one thing the history may legitimately have left switched on
        f.line("TRON", &mut of);
        f.take();
    }
    let end_f = f.line(&cmd, &mut of);
    let ev_f = f.take();
    let mut probes_f = String::new();
    for p in ["PRINT A;B;C;A%;B%;A#;X;Y%;Z#", "PRINT A$;\"|\";B$;\"|\";S$;I;J%;K;F9%", DATA_PROBE] {
        f.line(p, &mut of);
        probes_f.push_str(&flat(&f.take()));
    }
    if let Some(m) = has_panic(&ev_h).or(has_panic(&ev_f)) {
        return Outcome::fail("panic", m, h.script);
    }
    let case = format!("{}\nlisting at the end:\n{}", h.script, lines.join("\n"));
    if !pre.is_empty() {
        return Outcome::fail("listing-does-not-reenter-silently", format!("typing the listing into a fresh interpreter printed {:?}", flat(&pre)), case);
    }
    if ev_h != ev_f || end_h != end_f {
        return Outcome::fail(
            "run-differs-from-fresh-interpreter",
            format!("{} after the history:\n{}\n--- {} in a fresh interpreter holding the same listing:\n{}", cmd, flat(&ev_h), cmd, flat(&ev_f)),
            case,
        );
    }
    if probes_h != probes_f {
        return Outcome::fail("variables-differ-from-fresh-interpreter", format!("after the history: {:?}\nfresh: {:?}", probes_h, probes_f), case);
    }
    let nt = h.effective_edit_after_compile;
    let mut labels = h.labels.clone();
    labels.sort();
    labels.dedup();
    if nt {
        labels.push("effective edit after a compile");
    }
    let o = Outcome::pass(nt, hash_str(&case)).with_labels(labels);
    if ctx.render {
        o.with_case(case)
    } else {
        o
    }
}

// ------------------------------------------------------------------ B: nothing of the old execution can be resumed

fn check_no_resume(t: &mut Tape, ctx: &Ctx) -> Outcome {
    let mut h = new_hist();
    if let Err((c, d)) = play_history(t, &mut h, true) {
        return Outcome::fail(&c, d, h.script);
    }
    if !h.stopped_run {
        return Outcome::discard("no run stopped inside the program");
    }
    // one more effective edit, of a random kind
    let nums = numbers_of(&h.term);
    if nums.is_empty() {
        return Outcome::discard("empty listing");
    }
    let kind = t.below(10);
    let n = *t.pick(&nums);
    let cmd = match kind {
        6 => {
            // the same line with the letters inside its string literals in the other case
            let old = listing(&h.term).into_iter().find(|l| l.starts_with(&format!("{} ", n))).unwrap_or_default();
            let mut in_str = false;
            old.chars()
                .map(|c| {
                    if c == '"' {
                        in_str = !in_str;
                    }
                    if in_str && c.is_ascii_uppercase() {
                        c.to_ascii_lowercase()
                    } else if in_str && c.is_ascii_lowercase() {
                        c.to_ascii_uppercase()
                    } else {
                        c
                    }
                })
                .collect()
        }
        0 => format!("{} PRINT \"NEW LINE\"", n),
        1 => format!("{}", n),
        2 => format!("DELETE {}", n),
        3 => format!("{} REM", pick_line_no(t, &nums)),
        4 => "RENUM 3,0,7".to_string(),
        7 => "NEW".to_string(),
        8 => String::new(),
        // deleting a line that does not exist: the listing stays, the continuation point goes
        9 => format!("{}", pick_line_no(t, &nums)),
        _ => format!("DELETE {}-", n),
    };
    let eff = if kind == 8 {
        // a load replaces the program (set_listing is what LOAD ends in)
        let before = listing(&h.term);
        let mut l = basic::mach::Listing::default();
        let texts = ["10 PRINT \"LOADED\"", "20 GOSUB 40:NEXT:RETURN", "30 FOR I=1 TO 2:PRINT I:NEXT", "40 PRINT \"SUB\":RETURN"];
        for x in texts {
            let _ = l.load_str(x);
        }
        h.note(&format!("set_listing({} lines):\n{}", texts.len(), texts.join("\n")));
        h.term.rt.set_listing(l, false);
        let mut o = h.opts(100);
        h.term.run(&mut o);
        h.term.take();
        if h.stopped_run {
            h.effective_edit_after_stop = true;
        }
        before != listing(&h.term)
    } else {
        h.edit(&cmd)
    };
    if kind == 9 {
        if nums.contains(&cmd.parse::<u16>().unwrap_or(0)) {
            return Outcome::discard("no free line number");
        }
    } else if !eff || !h.effective_edit_after_stop {
        return Outcome::discard("the final edit did not change the listing");
    }
    let mut o = h.opts(3000);
    h.term.line("TRON", &mut o);
    h.term.take();
    let mut probe = t.pick(&["CONT", "RETURN", "NEXT", "PRINT FNA(1)", "PRINT FNB$(1,2)", "NEXT I", "RETURN:RETURN", "PRINT FNA(1,\"A\")"]).to_string();
    if kind == 9 && !h.effective_edit_after_stop {
        // the program is the one that was stopped: only the continuation point is gone
        probe = "CONT".to_string();
    }
    h.note(&format!("enter \"TRON\"\nenter {:?}   <- must not execute any program line", probe));
    crate::runner::note_case(&h.script);
    h.term.line(&probe, &mut o);
    let ev = h.term.take();
    if let Some(m) = has_panic(&ev) {
        return Outcome::fail("panic", m, h.script);
    }
    let out = printed(&ev);
    let case = format!("{}\nlisting at the end:\n{}", h.script, listing(&h.term).join("\n"));
    if flat(&ev).contains("INTERNAL ERROR") {
        // the documented answers are CAN'T CONTINUE / RETURN WITHOUT GOSUB / NEXT WITHOUT FOR /
        // UNDEFINED USER FUNCTION; an internal error means a stale address was followed
        return Outcome::fail("old-execution-resumed-into-edited-program", format!("after an effective edit ({:?}) following a stopped run, {:?} answered {:?}", cmd, probe, flat(&ev)), case);
    }
    if out.contains('[') || !out.trim().is_empty() {
        return Outcome::fail_sig(
            "old-execution-resumed-into-edited-program",
            format!("resumed:{}", probe.split(|c: char| !c.is_ascii_alphabetic()).next().unwrap_or("")),
            format!("after an effective edit ({:?}) following a stopped run, {:?} printed {:?} (full: {:?})", cmd, probe, out, flat(&ev)),
            case,
        );
    }
    let mut labels = h.labels.clone();
    labels.push(match kind {
        0 => "edit kind: replace a line",
        1 => "edit kind: bare number",
        2 | 5 => "edit kind: DELETE",
        3 => "edit kind: insert a line",
        6 => "edit kind: case-only change inside a string literal",
        7 => "edit kind: NEW",
        8 => "edit kind: load (set_listing)",
        9 => "edit kind: bare number of a line that does not exist",
        _ => "edit kind: RENUM",
    });
    labels.sort();
    labels.dedup();
    let o2 = Outcome::pass(true, hash_str(&case)).with_labels(labels);
    if ctx.render {
        o2.with_case(case)
    } else {
        o2
    }
}

// ------------------------------------------------------------------ C: the program edits itself (DELETE / NEW as program statements)

fn check_self_edit(t: &mut Tape, ctx: &Ctx) -> Outcome {
    let mut h = new_hist();
    let mut o1 = GenOpts::plain();
    o1.stop = false;
    o1.size = 12;
    let g1 = gen::program(t, &o1);
    h.replies = g1.replies.clone();
    for x in g1.prog.texts() {
        h.edit(&x);
    }
    let nums = numbers_of(&h.term);
    if nums.is_empty() {
        return Outcome::discard("empty listing");
    }
    // plant the self-editing statement right behind a random line (generated numbers leave gaps)
    let at = *t.pick(&nums);
    let m = *t.pick(&nums);
    let m2 = *t.pick(&nums);
    let stmt = match t.weighted(&[4, 2, 2, 1, 1]) {
        0 => format!("DELETE {}", m),
        1 => format!("DELETE {}-{}", m.min(m2), m.max(m2)),
        2 => format!("DELETE {}-", m),
        3 => format!("DELETE -{}", m),
        _ => "NEW".to_string(),
    };
    let n = at.saturating_add(1 + t.below(4) as u16);
    if nums.contains(&n) || n > 65529 {
        return Outcome::discard("no free line number behind the chosen line");
    }
    let pre = *t.pick(&["", "PRINT \"ED\":", "Q9=1:"]);
    let post = *t.pick(&["", ":PRINT \"AFTER\"", ":GOTO 10"]);
    h.edit(&format!("{} {}{}{}", n, pre, stmt, post));
    let before = listing(&h.term);
    h.note("enter \"RUN\"");
    let mut o = h.opts(4000);
    h.term.line("RUN", &mut o);
    let ev = h.term.take();
    if let Some(mm) = has_panic(&ev) {
        return Outcome::fail("panic", mm, h.script);
    }
    let after = listing(&h.term);
    if before == after {
        return Outcome::discard("the run did not reach the editing statement, or it removed nothing");
    }
    let frames = h.term.rt.verif_probe().stack_len;
    h.term.line("TRON", &mut o);
    h.term.take();
    let probe = t.pick(&["CONT", "CONT", "RETURN", "NEXT", "PRINT FNA(1)", "NEXT I"]).to_string();
    h.note(&format!("enter \"TRON\"\nenter {:?}   <- the program edited itself: must not execute any program line", probe));
    crate::runner::note_case(&h.script);
    h.term.line(&probe, &mut o);
    let ev = h.term.take();
    if let Some(mm) = has_panic(&ev) {
        return Outcome::fail("panic", mm, h.script);
    }
    let out = printed(&ev);
    let case = format!("{}\nlisting at the end:\n{}", h.script, after.join("\n"));
    if out.contains('[') || !out.trim().is_empty() {
        return Outcome::fail_sig(
            "old-execution-resumed-after-self-edit",
            format!("self-edit-resumed:{}", probe.split(|c: char| !c.is_ascii_alphabetic()).next().unwrap_or("")),
            format!("after the program executed {:?} (which changed the listing), {:?} printed {:?} (full: {:?})", stmt, probe, out, flat(&ev)),
            case,
        );
    }
    // and RUN afterwards equals RUN in a fresh interpreter holding the listing
    h.term.line("TROFF", &mut o);
    h.term.take();
    let mut o = h.opts(4000);
    let end_h = h.term.line("RUN", &mut o);
    let ev_h = h.term.take();
    let mut f = Term::new();
    let mut of = h.opts(4000);
    for l in &after {
        f.enter_raw(l);
        f.run(&mut of);
    }
    f.take();
    let mut of = h.opts(4000);
    let end_f = f.line("RUN", &mut of);
    let ev_f = f.take();
    if let Some(mm) = has_panic(&ev_h).or(has_panic(&ev_f)) {
        return Outcome::fail("panic", mm, h.script);
    }
    if ev_h != ev_f || end_h != end_f || listing(&h.term) != listing(&f) {
        return Outcome::fail(
            "run-after-self-edit-differs-from-fresh-interpreter",
            format!("RUN after the self-edit:\n{}\n--- RUN in a fresh interpreter holding the same listing:\n{}", flat(&ev_h), flat(&ev_f)),
            case,
        );
    }
    let mut labels = vec![if stmt == "NEW" { "self-edit: NEW" } else { "self-edit: DELETE" }];
    if frames > 0 {
        labels.push("frames were open when the program edited itself");
    }
    let o2 = Outcome::pass(true, hash_str(&case)).with_labels(labels);
    if ctx.render {
        o2.with_case(case)
    } else {
        o2
    }
}

// ------------------------------------------------------------------ literal histories (regressions)

const SCRIPTS: &[&str] = &[
    "10 PRINT 1\nRUN\n20 PRINT 2\n30\nRUN\n=>  1 \\n 1 \\n 2 \\n",
    "10 PRINT 1\n20 PRINT 2\nRUN\nRENUM 100\nRUN 100\n=>  1 \\n 2 \\n 1 \\n 2 \\n",
    "10 PRINT 1\n20 GOTO 10\nPRINT 0\n20\nRUN\n=>  0 \\n 1 \\n",
    "10 GOSUB 100\n20 PRINT \"B\"\n30 END\n100 STOP\n110 RETURN\nRUN\n100 REM\nTRON\nRETURN\n=> ?BREAK IN 100\\n?RETURN WITHOUT GOSUB\\n",
    "10 FOR I=1 TO 3\n20 STOP\n30 NEXT\nRUN\nDELETE 30\nTRON\nNEXT\n=> ?BREAK IN 20\\n?NEXT WITHOUT FOR\\n",
    "10 DEF FNA(X)=X+1\n20 STOP\nRUN\n10\nTRON\nPRINT FNA(1)\n=> ?BREAK IN 20\\n?UNDEFINED USER FUNCTION\\n",
    "10 PRINT 1\n20 STOP\n30 PRINT 3\nRUN\n25 PRINT 2\nCONT\n=>  1 \\n?BREAK IN 20\\n?CAN'T CONTINUE\\n",
    "10 PRINT \"A\"\n20 DELETE 10\n30 PRINT \"B\"\nRUN\nCONT\n=> A\\n?CAN'T CONTINUE\\n",
];

fn gen_scripts(part: usize, parts: usize, _th: bool, emit: &mut dyn FnMut(&str)) {
    for (i, s) in SCRIPTS.iter().enumerate() {
        if i % parts == part {
            emit(s);
        }
    }
}

fn check_script(item: &str, _ctx: &Ctx) -> Outcome {
    let (prog, want) = match item.rsplit_once("\n=> ") {
        Some((p, w)) => (p, w.replace("\\n", "\n")),
        None => return Outcome::discard("no expectation"),
    };
    let mut term = Term::new();
    let mut o = Opts::default();
    for l in prog.split('\n') {
        term.line(l, &mut o);
    }
    let evs = term.take();
    if let Some(m) = has_panic(&evs) {
        return Outcome::fail("panic", m, item.to_string());
    }
    let got = flat(&evs.into_iter().filter(|e| !matches!(e, Ev::List(_, _))).collect::<Vec<_>>());
    if got != want {
        return Outcome::fail("history-script", format!("got {:?}\nwant {:?}", got, want), item.to_string());
    }
    Outcome::pass(true, hash_str(item)).with_case(item.to_string())
}

pub fn property() -> Property {
    Property {
        id: "C04",
        rule: "Cases: proptest-generated edit histories of up to 15 operations over a generated program (typed in order, in reverse order, or loaded with set_listing): insert/replace with lines of a second generated program (references may dangle), bare number for existing and absent lines, DELETE in all range forms, RENUM with several argument triples, NEW, \
interleaved non-editing direct statements, partial runs that stop at STOP/END/error or are interrupted after k calls, CONT. (run_vs_fresh) the history ends in RUN or RUN n; the same command in a fresh interpreter into which get_listing()'s lines were typed must give the identical transcript and final variables. \
(no_resume) a run is stopped inside the program, an effective edit follows, then with TRON on one of CONT / RETURN / NEXT / NEXT I / PRINT FNx(..) must print no trace and no program output. (self_edit) a DELETE range or NEW is planted as a program statement; once the run has executed it and the listing changed, CONT / RETURN / NEXT / FNx under TRON must execute nothing, and a following RUN must equal RUN in a fresh interpreter holding the listing. (clause C, inside both) every non-editing direct statement leaves get_listing() unchanged. \
Non-trivial: an effective edit after a compile (the only way the dirty flag matters) / every no_resume case. Distinct by history text.",
        assumptions: vec![
            "differential oracle (fresh interpreter = same implementation): it detects history-dependent behaviour, not wrong behaviour common to both",
            "an edit is 'effective' when get_listing() changed; after an ineffective edit either behaviour of CONT/RETURN/NEXT is accepted",
            "variables surviving an edit are not asserted either way (the statement speaks of the execution state only)",
        ],
        subs: vec![
            Sub::items("history_scripts", gen_scripts, check_script, false),
            Sub::tape("run_vs_fresh", check_run_fresh, 30_000, 1_000_000, 1400),
            Sub::tape("no_resume", check_no_resume, 20_000, 600_000, 1400),
            Sub::tape("self_edit", check_self_edit, 20_000, 600_000, 900),
        ],
    }
}
