//! C09 — READ consumes DATA in source order; RESTORE and RUN reposition it.
//! Oracle: the reference interpreter on the final listing (constants in source order of the
//! final listing, pointer semantics of the RESTORE page, conversion as assignment).

use crate::bast::*;
use crate::drive::{flat, has_panic, Ev, Opts, Term};
use crate::expr::*;
use crate::gen::Generated;
use crate::model::{same_transcript, Halt, Machine};
use crate::runner::{Ctx, Outcome, Property, Sub};
use crate::sem::Bin;
use crate::tape::{hash_str, Tape};

const NUM_CONSTS: &[&str] = &["-1.23456789012", "-1D50", "-0.1#", "-16777217", "1.23456789012", "-32768", "-1E38", "0.1", "-0.1", "1", "2", "-5", "3.5", "&H10", "1E3", "-2.5#", "7%", "0", "12345678", "-32767", "32768", ".25", "1D2", "&17", "100", "-0.5", "65536", "2!"];
const STR_CONSTS: &[&str] = &["\"A\"", "\"HELLO\"", "\"é\"", "\"\"", "\"1,2\"", "\"x y\"", "\"12\""];
const NUM_TARGETS: &[&str] = &["A", "B%", "C#", "D!", "X", "Y%"];
const STR_TARGETS: &[&str] = &["A$", "B$"];

fn v(n: &str) -> E {
    E::Var(Name::new(n))
}

fn lit(n: i64) -> E {
    if n < 0 {
        E::Neg(Box::new(E::Lit((-n).to_string())))
    } else {
        E::Lit(n.to_string())
    }
}

fn print_vars(names: &[&str]) -> Stmt {
    let mut items = vec![];
    for n in names {
        items.push(PItem::Expr(v(n)));
        items.push(PItem::Semi);
        items.push(PItem::Expr(E::Str("|".into())));
        items.push(PItem::Semi);
    }
    items.pop();
    Stmt::Print(items)
}

struct Built {
    prog: Program,
    n_data_lines: usize,
    adjacent: bool,
    restore_n: bool,
}

/// A program that is all about DATA: placement, typed constants, typed targets, RESTORE forms.
fn build(t: &mut Tape) -> Built {
    let nlines = 6 + t.below(14);
    let mut stmts_per_line: Vec<Vec<Stmt>> = vec![];
    let mut data_lines = vec![];
    // decide which positions are DATA lines
    for i in 0..nlines {
        if t.chance(1, 3) {
            data_lines.push(i);
        }
    }
    if data_lines.is_empty() {
        data_lines.push(t.below(nlines));
    }
    let all_str_mixed = t.chance(1, 2);
    let numbers: Vec<u16> = {
        let mut n = vec![];
        let mut cur = *t.pick(&[0u16, 1, 10, 100]);
        for _ in 0..nlines + 3 {
            n.push(cur);
            cur += *t.pick(&[1u16, 5, 10, 10, 50]);
        }
        n
    };
    let sub_line = nlines; // a subroutine that reads, placed behind END
    let mut restore_n = false;
    for i in 0..nlines {
        if data_lines.contains(&i) {
            let k = 1 + t.below(4);
            let mut items = vec![];
            for _ in 0..k {
                if all_str_mixed && t.chance(1, 3) {
                    items.push(t.pick(STR_CONSTS).to_string());
                } else {
                    items.push(t.pick(NUM_CONSTS).to_string());
                }
            }
            let mut s = vec![Stmt::Data(items)];
            // DATA may share its line with other statements
            if t.chance(1, 8) {
                // ... or be the only content of an IF arm (the constants count wherever they stand)
                let c = E::Bin(Bin::Eq, Box::new(v("Z9")), Box::new(lit(12345)));
                let data = s.pop().unwrap();
                s = match t.below(3) {
                    0 => vec![Stmt::If { c, then_: Arm::Stmts(vec![print_vars(&["Z9"])]), else_: Some(Arm::Stmts(vec![data])), goto_form: false }],
                    1 => vec![Stmt::If { c, then_: Arm::Stmts(vec![data]), else_: None, goto_form: false }],
                    _ => vec![Stmt::If { c, then_: Arm::Stmts(vec![data]), else_: Some(Arm::Stmts(vec![Stmt::Let { lv: Lval::Var(Name::new("Z8")), e: lit(1), kw: false }])), goto_form: false }],
                };
            } else if i + 1 < nlines && t.chance(1, 6) {
                // behind an unconditional jump: never executed, still part of the data
                s.insert(0, Stmt::Goto(numbers[i + 1]));
            } else if t.chance(1, 5) {
                s.insert(0, Stmt::Let { lv: Lval::Var(Name::new("Z9")), e: lit(1), kw: false });
            } else if t.chance(1, 6) {
                s.push(print_vars(&["Z9"]));
            }
            stmts_per_line.push(s);
            continue;
        }
        let s: Vec<Stmt> = match t.weighted(&[8, 2, 2, 2, 1, 1, 1]) {
            0 => {
                // READ into 1-3 targets, then show them
                let k = 1 + t.below(3);
                let mut targets = vec![];
                let mut names: Vec<&str> = vec![];
                for _ in 0..k {
                    let n: &'static str = if all_str_mixed && t.chance(1, 3) { t.pick_str(STR_TARGETS) } else { t.pick_str(NUM_TARGETS) };
                    names.push(n);
                    targets.push(if t.chance(1, 8) { Lval::Elem(Name::new("Q"), vec![lit(t.range(0, 3))]) } else { Lval::Var(Name::new(n)) });
                }
                vec![Stmt::Read(targets), print_vars(&names)]
            }
            1 => vec![Stmt::Restore(None)],
            2 => {
                restore_n = true;
                vec![Stmt::Restore(Some(numbers[t.below(nlines)]))]
            }
            3 => {
                // a counted loop of READs
                let n = t.range(1, 3);
                vec![
                    Stmt::For { v: Name::new("I"), from: lit(1), to: lit(n), step: None },
                    Stmt::Read(vec![Lval::Var(Name::new(t.pick_str(NUM_TARGETS)))]),
                    print_vars(&["A", "B%", "C#"]),
                    Stmt::Next(vec![]),
                ]
            }
            4 => vec![Stmt::Gosub(numbers[sub_line])],
            5 => {
                // fuel-bounded backward jump: re-reads
                vec![
                    Stmt::Let { lv: Lval::Var(Name::new("F9%")), e: E::Bin(Bin::Add, Box::new(v("F9%")), Box::new(lit(1))), kw: false },
                    Stmt::If { c: E::Bin(Bin::Lt, Box::new(v("F9%")), Box::new(lit(3))), then_: Arm::Line(numbers[t.below(i + 1)]), else_: None, goto_form: false },
                ]
            }
            _ => {
                if t.chance(1, 2) {
                    vec![Stmt::Clear]
                } else {
                    vec![print_vars(&["A", "A$"])]
                }
            }
        };
        stmts_per_line.push(s);
    }
    let mut prog = Program::default();
    for (i, s) in stmts_per_line.into_iter().enumerate() {
        prog.lines.push(Line { num: numbers[i], stmts: s });
    }
    let mut sub = vec![Stmt::Read(vec![Lval::Var(Name::new("X"))]), print_vars(&["X"]), Stmt::Return];
    if t.chance(1, 3) {
        sub.push(Stmt::Data(vec![t.pick(NUM_CONSTS).to_string(), "\"LAST\"".to_string()]));
    }
    prog.lines.push(Line { num: numbers[nlines], stmts: sub });
    // END in front of the subroutine: insert into the last main line unless it ends in IF
    let last_main = nlines - 1;
    let ends_if = matches!(prog.lines[last_main].stmts.last(), Some(Stmt::If { .. }));
    if ends_if || t.chance(1, 2) {
        // read until the data runs out: OUT OF DATA is a documented ending
        prog.lines.insert(nlines, Line { num: numbers[last_main] + 1, stmts: if t.chance(1, 3) { vec![Stmt::Read(vec![Lval::Var(Name::new("A"))]), Stmt::Goto(numbers[last_main] + 1)] } else { vec![Stmt::End] } });
        if numbers[last_main] + 1 >= numbers[nlines] {
            // no room: fall back to END appended
            prog.lines.remove(nlines);
            prog.lines[last_main].stmts = vec![Stmt::End];
        }
    } else {
        prog.lines[last_main].stmts.push(Stmt::End);
    }
    let adjacent = data_lines.windows(2).all(|w| w[1] == w[0] + 1);
    Built { prog, n_data_lines: data_lines.len(), adjacent, restore_n }
}

fn check_data(t: &mut Tape, ctx: &Ctx) -> Outcome {
    let b = build(t);
    let prog = b.prog.clone();
    let texts = prog.texts();
    if let Err(e) = super::c01::printer_guard(&prog) {
        return Outcome::fail(&e.0, e.1, texts.join("\n"));
    }
    // ---- an edit history that ends in the final listing
    let mut term = Term::new();
    let mut o = Opts::default();
    o.max_calls = 3000;
    let mut script = String::new();
    let mut order: Vec<usize> = (0..texts.len()).collect();
    let mut moved = false;
    if t.chance(1, 2) {
        // typed out of order
        for i in (1..order.len()).rev() {
            let j = t.below(i + 1);
            order.swap(i, j);
        }
    }
    let enter = |term: &mut Term, s: &str, script: &mut String| {
        script.push_str(s);
        script.push('\n');
        let mut o = Opts::default();
        o.max_calls = 3000;
        term.line(s, &mut o);
    };
    for (k, i) in order.iter().enumerate() {
        let is_data = prog.lines[*i].stmts.iter().any(|s| matches!(s, Stmt::Data(_)));
        if is_data && t.chance(1, 3) {
            // an earlier version of the DATA line first, later replaced
            let n = prog.lines[*i].num;
            enter(&mut term, &format!("{} DATA 999,\"OLD\"", n), &mut script);
            moved = true;
            if t.chance(1, 2) {
                enter(&mut term, "RUN", &mut script);
            }
            if t.chance(1, 2) {
                enter(&mut term, &format!("{}", n), &mut script);
            }
        }
        enter(&mut term, &texts[*i], &mut script);
        if k == texts.len() / 2 && t.chance(1, 3) {
            // a partial earlier run and direct READs
            enter(&mut term, "RUN", &mut script);
            enter(&mut term, "READ Z8:READ Z7", &mut script);
            moved = true;
        }
    }
    if t.chance(1, 4) {
        // an extra DATA line that is deleted again
        let n = prog.lines.last().map(|l| l.num.saturating_add(1)).unwrap_or(1);
        if !prog.line_numbers().contains(&n) {
            enter(&mut term, &format!("{} DATA 777", n), &mut script);
            enter(&mut term, "READ Z8", &mut script);
            enter(&mut term, &format!("{}", n), &mut script);
            moved = true;
        }
    }
    if let Some(m) = has_panic(&term.log) {
        return Outcome::fail("panic", m, script);
    }
    term.take();
    if term.listing_text() != texts {
        return Outcome::fail("history-does-not-produce-the-listing", format!("listing {:?}\nwanted {:?}", term.listing_text(), texts), script);
    }
    // ---- final RUN, then direct READs from the prompt
    let directs: Vec<Vec<Stmt>> = vec![
        vec![Stmt::Run(None)],
        vec![print_vars(&["A", "B%", "C#", "D!", "X", "Y%", "A$", "B$", "F9%"])],
        vec![Stmt::Restore(None), Stmt::Read(vec![Lval::Var(Name::new("C#"))]), print_vars(&["C#"])],
        vec![Stmt::Read(vec![Lval::Var(Name::new("A$"))]), print_vars(&["A$"])],
        vec![Stmt::Run(Some(prog.lines[t.below(prog.lines.len())].num))],
        vec![print_vars(&["A", "B%", "C#", "D!", "X", "Y%", "A$", "B$"])],
    ];
    let case = format!("{}--- final listing:\n{}\n--- then:\n{}", script, texts.join("\n"), directs.iter().map(|d| render_stmts(d)).collect::<Vec<_>>().join("\n"));
    crate::runner::note_case(&case);
    let mut m = Machine::new(&prog);
    let mut labels: Vec<&'static str> = vec![];
    let refused_at = if t.chance(1, 2) { Some(1 + t.below(4)) } else { None };
    for (di, d) in directs.iter().enumerate() {
        if Some(di) == refused_at {
            // a DATA statement typed at the prompt is refused and must leave no constants behind
            let raw = "DATA 888,\"DIRECT\"";
            term.line(raw, &mut o);
            let got = flat(&term.take());
            if !got.contains("ILLEGAL DIRECT") {
                return Outcome::fail("data-transcript", format!("{:?} at the prompt printed {:?}, expected ?ILLEGAL DIRECT", raw, got), case);
            }
            labels.push("a direct DATA was refused between runs");
        }
        let h = m.direct_line(d);
        let want = std::mem::take(&mut m.out);
        if h == Halt::Budget {
            return Outcome::discard("model step budget exceeded");
        }
        if m.undefined.is_some() || m.flags.fuzzy_eq {
            return Outcome::discard("outside the well-defined fragment");
        }
        o.max_calls = m.steps * 40 + 4000;
        let text = render_stmts(d);
        term.line(&text, &mut o);
        let got = term.take();
        if let Some(p) = has_panic(&got) {
            return Outcome::fail("panic", p, case);
        }
        if !same_transcript(&want, &got) {
            return Outcome::fail("data-transcript", format!("after {:?}\n--- prescribed:\n{}\n--- implementation:\n{}", text, flat(&want), flat(&got)), case);
        }
    }
    if m.hits.restores > 0 {
        labels.push("RESTORE executed");
    }
    if b.restore_n {
        labels.push("RESTORE n in the program");
    }
    if moved {
        labels.push("edit history moved data");
    }
    if flat(&[Ev::Errs(vec![m.hits.error_end.clone().unwrap_or_default()])]).contains("OUT OF DATA") {
        labels.push("OUT OF DATA");
    }
    if let Some(e) = &m.hits.error_end {
        if e.contains("TYPE MISMATCH") {
            labels.push("string constant into a numeric target (TYPE MISMATCH)");
        }
    }
    let nt = b.n_data_lines >= 2 && !b.adjacent && (b.restore_n || moved) && m.hits.reads >= 2;
    let o2 = Outcome::pass(nt, hash_str(&case)).with_labels(labels);
    if ctx.render {
        o2.with_case(case)
    } else {
        o2
    }
}

#[allow(dead_code)]
fn unused(_g: &Generated) {}

pub fn property() -> Property {
    Property {
        id: "C09",
        rule: "Cases: proptest-generated programs that are all about DATA: 6-20 lines with DATA lines anywhere (before, between, after the code, behind END, sharing a line with other statements), typed constants (-5, &H10, 1E3, -2.5#, 7%, 12345678, strings), READs into targets of every type incl. array elements, RESTORE, RESTORE n for any line (DATA or not, before/between/after the data), counted READ loops, a reading subroutine, fuel-bounded re-reads, CLEAR mid-program, reading to OUT OF DATA; \
entered through an edit history (lines typed out of order, earlier versions of DATA lines replaced or deleted and re-added, partial earlier runs, direct READs, an extra DATA line added and removed), DATA behind GOTO n: / RETURN: on the same line, a DATA statement typed (and refused) at the prompt between runs, then RUN, direct RESTORE/READ from the prompt, RUN n. \
Oracle: reference interpreter on the final listing: one constant list in source order, pointer semantics of RESTORE [n], conversion exactly as assignment (TYPE MISMATCH for a string constant into a numeric target and vice versa), OUT OF DATA past the end; whole transcripts compared. \
Non-trivial: >= 2 DATA lines not all adjacent, >= 2 READs executed and a RESTORE n or an edit that moved data. Distinct by history + listing.",
        assumptions: vec!["reference interpreter and literal typing rules as in C01/C02 (DESIGN.md Appendix A15)"],
        subs: vec![Sub::tape("data_programs", check_data, 40_000, 1_500_000, 500)],
    }
}
