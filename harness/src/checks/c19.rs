//! C19 — compile-time diagnostics point into the listed line and block execution.
//! Oracle: the canonical printer's span table says where every line-number operand and every
//! WHILE/WEND keyword sits in the listed text; injected faults must be reported exactly there,
//! and a program with any compile-time error must not execute a single line.

use crate::bast::*;
use crate::drive::{flat, has_panic, printed, Ev, Opts, Term};
use crate::expr::*;
use crate::gen::{self, GenOpts};
use crate::runner::{Ctx, Outcome, Property, Sub};
use crate::tape::{hash_str, Tape};

/// Expected link-time diagnostics of a program: (message text, line, start, end) with character
/// offsets into the listed text.
fn expected_link_errors(p: &Program) -> Vec<(String, u16, usize, usize)> {
    let nums = p.line_numbers();
    let mut out = vec![];
    // WHILE/WEND pairing by source position
    let mut open: Vec<(u16, usize, usize)> = vec![];
    for l in &p.lines {
        let r = render_line(l);
        // walk the tokens in order: spans of LineRef operands and of WHILE / WEND keywords
        let mut toks = vec![];
        stmts_tokens(&l.stmts, &mut toks);
        // statements after a remark are not compiled: stop at the first REM / '
        let mut in_list_or_delete = false;
        for (tok, sp) in toks.iter().zip(r.spans.iter()) {
            if tok.kind == TK::Kw && (tok.s == "REM" || tok.s == "'") {
                break;
            }
            if tok.kind == TK::Kw {
                in_list_or_delete = tok.s == "LIST" || tok.s == "DELETE";
            }
            if tok.kind == TK::Punct && tok.s == ":" {
                in_list_or_delete = false;
            }
            match tok.kind {
                TK::LineRef => {
                    let n: u16 = tok.s.parse().unwrap_or(0);
                    if !in_list_or_delete && !nums.contains(&n) {
                        out.push(("?UNDEFINED LINE".to_string(), l.num, sp.start, sp.end));
                    }
                }
                TK::Kw if tok.s == "WHILE" => open.push((l.num, sp.start, sp.end)),
                TK::Kw if tok.s == "WEND" => {
                    if open.pop().is_none() {
                        out.push(("?WEND WITHOUT WHILE".to_string(), l.num, sp.start, sp.end));
                    }
                }
                _ => {}
            }
        }
    }
    for (n, s, e) in open {
        out.push(("?WHILE WITHOUT WEND".to_string(), n, s, e));
    }
    out
}

fn all_refs(p: &Program) -> Vec<(usize, usize)> {
    // (line index, ordinal of the reference within the line)
    let mut v = vec![];
    for (li, l) in p.lines.iter().enumerate() {
        let mut k = 0;
        for s in &l.stmts {
            let mut c = s.clone();
            map_refs(&mut c, &mut |n| {
                v.push((li, k));
                k += 1;
                n
            });
        }
    }
    v
}

fn retarget(p: &mut Program, li: usize, ord: usize, to: u16) {
    let mut k = 0;
    for s in p.lines[li].stmts.iter_mut() {
        map_refs(s, &mut |n| {
            let r = if k == ord { to } else { n };
            k += 1;
            r
        });
    }
}

fn missing_number(t: &mut Tape, nums: &[u16]) -> u16 {
    for _ in 0..20 {
        let c = match t.below(4) {
            0 => nums.last().copied().unwrap_or(10).saturating_add(1 + t.below(50) as u16),
            1 => nums[t.below(nums.len())].saturating_add(1),
            2 => 65529,
            _ => t.below(65530) as u16,
        };
        if !nums.contains(&c) && c <= 65529 {
            return c;
        }
    }
    64999
}

fn parse_err(text: &str) -> Option<(String, Option<u16>, Option<usize>)> {
    // "?UNDEFINED LINE IN 10:9; detail"
    let head = text.split(';').next().unwrap_or(text);
    match head.find(" IN ") {
        None => Some((head.to_string(), None, None)),
        Some(i) => {
            let code = head[..i].to_string();
            let rest = &head[i + 4..];
            let mut it = rest.split(':');
            let line: u16 = it.next()?.trim().parse().ok()?;
            let col = it.next().and_then(|c| c.trim().parse::<usize>().ok());
            Some((code, Some(line), col))
        }
    }
}

fn check_faults(t: &mut Tape, ctx: &Ctx) -> Outcome {
    let mut o = GenOpts::plain();
    o.size = 14;
    let g = gen::program(t, &o);
    let mut prog = g.prog.clone();
    if prog.lines.is_empty() {
        return Outcome::discard("empty program");
    }
    let mut labels: Vec<&'static str> = vec![];
    let nfaults = 1 + t.below(3);
    let mut damaged_lines: Vec<u16> = vec![];
    let mut not_first_stmt = false;
    let mut multibyte_before = false;
    for _ in 0..nfaults {
        let nums = prog.line_numbers();
        match t.weighted(&[5, 2, 2, 2, 2]) {
            0 => {
                // a dangling target in one referencing operand
                let refs = all_refs(&prog);
                if refs.is_empty() {
                    continue;
                }
                let (li, ord) = refs[t.below(refs.len())];
                let to = missing_number(t, &nums);
                retarget(&mut prog, li, ord, to);
                labels.push("dangling reference");
                if ord > 0 || prog.lines[li].stmts.len() > 1 {
                    not_first_stmt = true;
                }
                if t.chance(1, 2) {
                    // multi-byte text in front of the fault on the same line
                    prog.lines[li].stmts.insert(0, Stmt::Print(vec![PItem::Expr(E::Str(t.pick(&["é", "日本語", "😀 ß", "a→b"]).to_string())), PItem::Semi]));
                    multibyte_before = true;
                    not_first_stmt = true;
                }
            }
            1 => {
                // delete a line (every reference to it dangles)
                if prog.lines.len() > 2 {
                    let i = t.below(prog.lines.len());
                    prog.lines.remove(i);
                    labels.push("referenced line deleted");
                }
            }
            2 => {
                let li = t.below(prog.lines.len());
                let l = &mut prog.lines[li];
                if !l.stmts.iter().any(|s| matches!(s, Stmt::Rem { .. } | Stmt::If { .. })) {
                    if t.chance(1, 2) {
                        l.stmts.insert(0, Stmt::Print(vec![PItem::Expr(E::Str("ü".into())), PItem::Semi]));
                        multibyte_before = true;
                    }
                    l.stmts.push(Stmt::Wend);
                    not_first_stmt = true;
                    labels.push("extra WEND");
                }
            }
            3 => {
                let li = t.below(prog.lines.len());
                let l = &mut prog.lines[li];
                if !l.stmts.iter().any(|s| matches!(s, Stmt::Rem { .. } | Stmt::If { .. })) {
                    l.stmts.push(Stmt::While(E::Var(Name::new("A"))));
                    not_first_stmt = true;
                    labels.push("extra WHILE");
                }
            }
            _ => {
                // token-level damage: applied to the text below
                let li = t.below(prog.lines.len());
                damaged_lines.push(prog.lines[li].num);
                labels.push("token-level damage");
            }
        }
    }
    // render; damaged lines lose or change one token
    let mut texts: Vec<String> = vec![];
    let mut any_damage = false;
    for l in &prog.lines {
        if damaged_lines.contains(&l.num) {
            let mut toks = vec![];
            stmts_tokens(&l.stmts, &mut toks);
            if toks.len() >= 2 {
                let i = t.below(toks.len());
                match t.below(3) {
                    0 => {
                        toks.remove(i);
                    }
                    1 => toks[i] = Tok::p(t.pick_str(&["(", ")", "=", ",", "\"", "THEN"])),
                    _ => toks.insert(i, Tok::p(t.pick_str(&["(", ")", "+", "TO", "=="]))),
                }
                let body = join(&toks).0;
                if !body.trim().is_empty() {
                    texts.push(format!("{} {}", l.num, body));
                    any_damage = true;
                    continue;
                }
            }
        }
        texts.push(render_line(l).text);
    }
    if texts.iter().any(|x| x.len() > 1000) {
        return Outcome::discard("line too long");
    }
    let case = texts.join("\n");
    crate::runner::note_case(&case);
    let mut term = Term::new();
    let mut op = Opts::default();
    op.replies = g.replies.iter().cloned().collect();
    op.max_calls = 300;
    // half of the cases reach the faulty program by editing: the well-formed original is typed
    // and run under TRON first (every run-time line lookup has happened), then the damaged lines
    // are typed over it and the lines that went are deleted
    let mut case = case;
    if t.chance(1, 2) {
        for l in g.prog.texts() {
            term.enter_raw(&l);
            term.run(&mut op);
        }
        term.line("TRON", &mut op);
        term.line("RUN", &mut op);
        term.line("TROFF", &mut op);
        for n in g.prog.line_numbers() {
            if !prog.lines.iter().any(|l| l.num == n) {
                term.line(&format!("{}", n), &mut op);
            }
        }
        op.replies = g.replies.iter().cloned().collect();
        case = format!("(the well-formed original was typed and run under TRON first, then edited into:)\n{}", case);
        crate::runner::note_case(&case);
    }
    for l in &texts {
        term.enter_raw(l);
        term.run(&mut op);
    }
    term.take();
    let listing = term.listing_text();
    let listed_of = |n: u16| -> Option<String> { listing.iter().find(|l| l.starts_with(&format!("{} ", n))).cloned() };
    // ---- before anything enters the program: direct statements that stay outside it work, also
    // as the very first statement after the edit and also when they mention a (faulty) line
    if t.chance(1, 2) && !prog.lines.is_empty() {
        let n = prog.lines[t.below(prog.lines.len())].num;
        for (cmd, want) in [("PRINT 6*7".to_string(), " 42 \n"), (format!("IF 0 THEN {} ELSE PRINT 7", n), " 7 \n"), (format!("Q6=2:ON Q6 GOTO {}:PRINT 8", n), " 8 \n")] {
            term.line(&cmd, &mut op);
            let ev = flat(&term.take());
            if ev != want {
                return Outcome::fail("direct-statement-blocked", format!("{:?} (typed right after the program, before any RUN) printed {:?}, expected {:?}", cmd, ev, want), format!("{}\n> {}", case, cmd));
            }
        }
    }
    // ---- RUN with TRON: the diagnostics, and nothing else
    term.line("TRON", &mut op);
    term.take();
    term.line("RUN", &mut op);
    let evs = term.take();
    if let Some(p) = has_panic(&evs) {
        return Outcome::fail("panic", p, case);
    }
    let errs: Vec<String> = evs.iter().flat_map(|e| if let Ev::Errs(v) = e { v.clone() } else { vec![] }).collect();
    let expect = expected_link_errors(&prog);
    let compile_error_expected = !expect.is_empty() || any_damage;
    if errs.is_empty() {
        if !expect.is_empty() && !any_damage {
            return Outcome::fail("fault-not-reported", format!("expected {:?}, RUN printed {:?}", expect, flat(&evs)), case);
        }
        if !any_damage {
            return Outcome::discard("no fault left in the program");
        }
        // the damage happened to leave a valid line: nothing to check
        return Outcome::discard("damage left the program valid");
    }
    // with TRON on, a run-time error is preceded by the trace of the lines that ran; compile-time
    // diagnostics come with no output at all
    let compile_time = printed(&evs).trim().is_empty();
    if !compile_time {
        if expect.is_empty() || any_damage {
            return Outcome::discard("damage left a program that compiles (it ended in a run-time error)");
        }
        return Outcome::fail("fault-not-reported", format!("expected compile-time diagnostics {:?}, RUN gave {:?}", expect, flat(&evs)), case);
    }
    let out = printed(&evs);
    if out.contains('[') || !out.trim().is_empty() {
        return Outcome::fail("program-with-errors-executed", format!("RUN printed {:?} besides the diagnostics {:?}", out, errs), case);
    }
    // every diagnostic names an existing line and a range inside its listed text
    for e in &errs {
        let (code, line, col) = match parse_err(e) {
            Some(x) => x,
            None => return Outcome::fail("malformed-diagnostic", e.clone(), case),
        };
        match line {
            None => return Outcome::fail("diagnostic-without-line", format!("{:?} names no program line (RUN itself is fine)", e), case),
            Some(n) => match listed_of(n) {
                None => return Outcome::fail("diagnostic-names-missing-line", format!("{:?}: line {} is not in the listing", e, n), case),
                Some(text) => {
                    if col.is_none() && (code.contains("SYNTAX ERROR") || code.contains("UNDEFINED LINE") || code.contains("WITHOUT")) {
                        // the message is one of the channels that carry the position (LIST's
                        // underline is the other): a fault at the very end of the line has one too
                        return Outcome::fail("diagnostic-without-column", format!("{:?} names line {} but no column", e, n), case);
                    }
                    if let Some(c) = col {
                        if c == 0 || c - 1 > text.chars().count() {
                            return Outcome::fail("diagnostic-column-outside-line", format!("{:?}: column {} outside {:?} ({} characters)", e, c, text, text.chars().count()), case);
                        }
                    }
                    let _ = code;
                }
            },
        }
    }
    // LIST: underline ranges inside the listed text
    term.line("TROFF", &mut op);
    term.take();
    term.line("LIST", &mut op);
    let listed = term.take();
    let mut ranges: Vec<(u16, usize, usize)> = vec![];
    for e in &listed {
        if let Ev::List(text, cols) = e {
            let n: u16 = text.split(' ').next().and_then(|x| x.parse().ok()).unwrap_or(0);
            let len = text.chars().count();
            for (s, e2) in cols {
                if s > e2 || *e2 > len {
                    return Outcome::fail("underline-outside-line", format!("line {:?} ({} characters) is underlined at {}..{}", text, len, s, e2), case);
                }
                ranges.push((n, *s, *e2));
            }
        }
    }
    if !any_damage {
        // exact: every injected fault, exactly at its operand / keyword
        let mut want: Vec<String> = expect.iter().map(|(m, n, s, _)| format!("{} IN {}:{}", m, n, s + 1)).collect();
        want.sort();
        let mut got = errs.clone();
        got.sort();
        if want != got {
            return Outcome::fail("diagnostics-differ", format!("reported {:?}\nexpected (operand spans from the printer's table) {:?}", got, want), case);
        }
        let mut want_r: Vec<(u16, usize, usize)> = expect.iter().map(|(_, n, s, e)| (*n, *s, *e)).collect();
        want_r.sort();
        ranges.sort();
        if want_r != ranges {
            return Outcome::fail("underline-ranges-differ", format!("LIST underlines {:?}\nexpected exactly the operands / keywords {:?}", ranges, want_r), case);
        }
    }
    // ---- the gate: nothing enters the program, direct statements still work
    let nums = prog.line_numbers();
    let n = nums[t.below(nums.len())];
    term.line("TRON", &mut op);
    term.take();
    for cmd in [format!("RUN {}", n), format!("GOTO {}", n), format!("GOSUB {}", n), format!("IF 1 THEN {}", n), format!("ON 1 GOTO {}", n), format!("ON 1 GOSUB {}", n), "CONT".to_string()] {
        term.line(&cmd, &mut op);
        let ev = term.take();
        if let Some(p) = has_panic(&ev) {
            return Outcome::fail("panic", p, case);
        }
        let out = printed(&ev);
        if out.contains('[') || !out.trim().is_empty() {
            return Outcome::fail("program-with-errors-executed", format!("{:?} printed {:?} (compile-time errors: {:?})", cmd, out, errs), format!("{}\n> {}", case, cmd));
        }
    }
    // direct statements that stay inside the direct line, including ones that jump within it
    for (cmd, want) in [
        ("PRINT 6*7", " 42 \n"),
        ("WHILE Q7<3:Q7=Q7+1:PRINT Q7;:WEND:PRINT", " 1  2  3 \n"),
        ("FOR Q8=1 TO 2:PRINT Q8;:NEXT:PRINT", " 1  2 \n"),
        ("IF 0 THEN PRINT 5 ELSE PRINT 6", " 6 \n"),
        ("Q9=0:WHILE Q9<2:Q9=Q9+1:WEND:PRINT Q9", " 2 \n"),
    ] {
        term.line(cmd, &mut op);
        let ev = flat(&term.take());
        if ev != want {
            return Outcome::fail("direct-statement-blocked", format!("{:?} printed {:?}, expected {:?}", cmd, ev, want), format!("{}\n> {}", case, cmd));
        }
    }
    let _ = compile_error_expected;
    labels.sort();
    labels.dedup();
    let o2 = Outcome::pass(multibyte_before || not_first_stmt, hash_str(&case)).with_labels(labels);
    if ctx.render {
        o2.with_case(format!("{}\n=> {:?}", case, errs))
    } else {
        o2
    }
}

// ------------------------------------------------------------------ literal cases

const CASES: &[&str] = &[
    "10 GOTO 100\nRUN\n=> ?UNDEFINED LINE IN 10:9\\n",
    "10 PRINT \"日本語\":GOTO 100\nRUN\n=> ?UNDEFINED LINE IN 10:21\\n",
    "10 ON X GOSUB 10,20,30\nRUN\n=> ?UNDEFINED LINE IN 10:18\\n?UNDEFINED LINE IN 10:21\\n",
    "10 PRINT 1\n20 WEND\nRUN\n=> ?WEND WITHOUT WHILE IN 20:4\\n",
    "10 PRINT 1\n20 WHILE 1\nRUN\nPRINT 6*7\n=> ?WHILE WITHOUT WEND IN 20:4\\n 42 \\n",
    "10 PRINT 1\n20 PRINT )\nTRON\nRUN\nGOTO 10\nGOSUB 10\n=> ?SYNTAX ERROR IN 20:10; EXPECTED EXPRESSION\\n?SYNTAX ERROR IN 20:10; EXPECTED EXPRESSION\\n?SYNTAX ERROR IN 20:10; EXPECTED EXPRESSION\\n",
    "10 IF A THEN 50 ELSE 60\nRUN\n=> ?UNDEFINED LINE IN 10:14\\n?UNDEFINED LINE IN 10:22\\n",
    "10 RESTORE 99\nRUN\n=> ?UNDEFINED LINE IN 10:12\\n",
    "10 ERASE\nRUN\n=> ?SYNTAX ERROR IN 10:4; EXPECTED VARIABLE\\n",
    "10 A=1:ERASE:PRINT 2\nRUN\n=> ?SYNTAX ERROR IN 10:8; EXPECTED VARIABLE\\n",
];

fn gen_cases(part: usize, parts: usize, _th: bool, emit: &mut dyn FnMut(&str)) {
    for (i, s) in CASES.iter().enumerate() {
        if i % parts == part {
            emit(s);
        }
    }
}

fn check_case(item: &str, _ctx: &Ctx) -> Outcome {
    let (prog, want) = match item.rsplit_once("\n=> ") {
        Some((p, w)) => (p, w.replace("\\n", "\n")),
        None => return Outcome::discard("no expectation"),
    };
    let mut term = Term::new();
    let mut o = Opts::default();
    for l in prog.split('\n') {
        term.line(l, &mut o);
    }
    let evs = term.take();
    if let Some(m) = has_panic(&evs) {
        return Outcome::fail("panic", m, item.to_string());
    }
    let got = flat(&evs);
    if got != want {
        return Outcome::fail("diagnostic-case", format!("got {:?}\nwant {:?}", got, want), item.to_string());
    }
    Outcome::pass(true, hash_str(item)).with_case(item.to_string())
}


// ------------------------------------------------------------------ statements cut short

/// Byte offsets at which a statement text can be cut between two tokens.
fn cut_points(s: &str) -> Vec<usize> {
    let mut v = vec![];
    let cs: Vec<(usize, char)> = s.char_indices().collect();
    let mut i = 0;
    while i < cs.len() {
        let (_, c) = cs[i];
        if c == '"' {
            i += 1;
            while i < cs.len() && cs[i].1 != '"' {
                i += 1;
            }
            i += 1;
        } else if c.is_alphanumeric() || c == '.' {
            while i < cs.len() && (cs[i].1.is_alphanumeric() || ".$%!#".contains(cs[i].1)) {
                i += 1;
            }
        } else {
            i += 1;
        }
        v.push(if i < cs.len() { cs[i].0 } else { s.len() });
    }
    v.dedup();
    v
}

fn gen_prefixes(part: usize, parts: usize, _th: bool, emit: &mut dyn FnMut(&str)) {
    let mut idx = 0;
    for sn in crate::textgen::SNIPPETS {
        for cut in cut_points(sn) {
            for lead in ["", "A=1:", "PRINT \"日本\":"] {
                idx += 1;
                if idx % parts == part {
                    emit(&format!("10 {}{}", lead, sn[..cut].trim_end()));
                }
            }
        }
    }
}

/// A statement that stops after any of its tokens either still compiles or is reported with a
/// position inside the line - wherever on the line it stands.
fn check_prefix(item: &str, _ctx: &Ctx) -> Outcome {
    let mut term = Term::new();
    let mut o = Opts::default();
    o.max_calls = 40;
    o.quantum = 200;
    term.line(item, &mut o);
    if !term.take().is_empty() {
        return Outcome::discard("the line is refused at entry");
    }
    let listed = match term.listing_text().first() {
        Some(l) => l.clone(),
        None => return Outcome::discard("nothing stored"),
    };
    term.line("TRON", &mut o);
    term.take();
    term.line("RUN", &mut o);
    let evs = term.take();
    if let Some(m) = has_panic(&evs) {
        return Outcome::fail("panic", m, item.to_string());
    }
    let out = printed(&evs);
    let errs: Vec<String> = evs.iter().flat_map(|e| if let Ev::Errs(v) = e { v.clone() } else { vec![] }).collect();
    if out.contains('[') || errs.is_empty() {
        return Outcome::pass(false, hash_str(item)).with_labels(vec!["the cut statement compiles"]);
    }
    let width = listed.chars().count();
    for e in &errs {
        let (code, line, col) = match parse_err(e) {
            Some(x) => x,
            None => return Outcome::fail("malformed-diagnostic", e.clone(), item.to_string()),
        };
        if line != Some(10) {
            return Outcome::fail("diagnostic-without-line", format!("{:?} does not name line 10 (listed: {:?})", e, listed), item.to_string());
        }
        if code.contains("SYNTAX ERROR") || code.contains("UNDEFINED LINE") || code.contains("WITHOUT") {
            match col {
                None => return Outcome::fail("diagnostic-without-column", format!("{:?} names line 10 but no column (listed: {:?})", e, listed), item.to_string()),
                Some(c) if c < 1 || c > width + 1 => return Outcome::fail("diagnostic-column-outside-line", format!("{:?}: column {} is outside {:?}", e, c, listed), item.to_string()),
                _ => {}
            }
        }
    }
    Outcome::pass(true, hash_str(item)).with_case(format!("{}  -> {}", listed, errs.join(" / ")))
}

pub fn property() -> Property {
    Property {
        id: "C19",
        rule: "Cases: proptest-generated well-formed programs with 1-3 injected faults: a line-number operand of any referencing form (GOTO, GOSUB, THEN n, ELSE n, IF..GOTO, any position of an ON list, RESTORE n) retargeted to a missing line, a referenced line deleted, an extra WEND or WHILE appended, token-level damage (one token dropped, replaced or inserted), with multi-byte string literals placed in front of the fault on the same line. \
Oracle: after TRON + RUN only diagnostics appear (no `[n]`, no program output); every diagnostic names a line that is in the listing and a column inside its listed text; LIST's underline ranges lie inside the listed text; without token damage the reported set equals, as a multiset, the set computed from the canonical printer's span table: \
UNDEFINED LINE exactly at each dangling operand, WHILE WITHOUT WEND / WEND WITHOUT WHILE exactly at the unmatched keyword (source-order pairing), both in the `IN n:col` text and in the underline ranges. Gate: RUN n, GOTO n, GOSUB n, IF 1 THEN n, ON 1 GOTO/GOSUB n and CONT execute no line, PRINT 6*7 prints 42. \
(statement_prefixes) every statement of the snippet corpus cut after each of its tokens, standing first on the line, behind another statement and behind a multi-byte literal: it compiles, or every diagnostic names the line and a column inside its listed text. \
Non-trivial: the fault is preceded by a multi-byte character or is not in the first statement of its line / the cut statement is refused. Distinct by program text.",
        assumptions: vec!["when a line has a syntax error the link-time diagnostics of the program are not shown by the implementation (only the syntax errors); the exact-set comparison is therefore made for programs without token damage", "LIST/DELETE operands naming missing lines are not references that must resolve"],
        subs: vec![Sub::items("diagnostic_cases", gen_cases, check_case, false), Sub::items("statement_prefixes", gen_prefixes, check_prefix, false), Sub::tape("injected_faults", check_faults, 200_000, 4_000_000, 900)],
    }
}
