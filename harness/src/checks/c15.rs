//! C15 — the program store is an ordered map with exact LIST/DELETE ranges.
//! Oracle: BTreeMap<u16,String> model, compared after every operation.

use crate::drive::{flat, has_panic, Ev, Opts, Term};
use crate::runner::{Ctx, Outcome, Property, Sub};
use crate::tape::{hash_str, Tape};
use std::collections::BTreeMap;

const MAXLINE: u32 = 65529;

/// Parsed form of a typed history line, by the harness's own reading of the manual.
enum Op {
    Enter(u32, String),
    Bare(u32),
    List(Option<Range>),
    Delete(Option<Range>),
    /// a bare DELETE in front of `:` or `ELSE`: rejected, nothing runs, nothing changes
    Rejected,
    /// several LIST / DELETE statements on one direct line, executed left to right
    Seq(Vec<Op>),
    /// LOAD "F": the file's lines (after the first, separated by U+0001) replace the store, each
    /// acting as if typed into an empty interpreter
    Load(Vec<String>),
    /// a LOAD the host cannot complete (no such file, or a file with a line the loader refuses):
    /// an error, and the store stays as it is
    FailedLoad,
}

const REJECTED_FORMS: &[&str] = &["DELETE:LIST", "DELETE :PRINT 1", "IF 1 THEN DELETE ELSE PRINT 1", "DELETE:DELETE 0-", "DELETE:NEW", "IF 0 THEN PRINT 1 ELSE DELETE:PRINT 2"];

/// None = malformed/rejected range
struct Range {
    from: u32,
    to: u32,
    bare: bool,
}

fn parse_range(s: &str) -> Option<Range> {
    let s = s.trim();
    if s.is_empty() {
        return Some(Range { from: 0, to: MAXLINE, bare: true });
    }
    let (a, b) = match s.find('-') {
        None => {
            let n: u32 = s.parse().ok()?;
            (Some(n), Some(n))
        }
        Some(i) => {
            let l = s[..i].trim();
            let r = s[i + 1..].trim();
            (if l.is_empty() { None } else { Some(l.parse::<u32>().ok()?) }, if r.is_empty() { None } else { Some(r.parse::<u32>().ok()?) })
        }
    };
    let from = a.unwrap_or(0);
    let to = b.unwrap_or(MAXLINE);
    if from > MAXLINE || to > MAXLINE || from > to {
        return None;
    }
    Some(Range { from, to, bare: false })
}

fn parse_op(line: &str) -> Op {
    // a LIST / DELETE reached with the cursor in mid-line is the same LIST / DELETE
    if let Some(r) = line.strip_prefix("PRINT \"X\";:") {
        return parse_op(r);
    }
    if REJECTED_FORMS.contains(&line) {
        return Op::Rejected;
    }
    if line == "LOAD \"NOSUCH\"" || line == "LOAD \"BAD\"" {
        return Op::FailedLoad;
    }
    if line.starts_with("LOAD \"F\"") {
        return Op::Load(line.split('\u{1}').skip(1).map(|x| x.to_string()).collect());
    }
    // a numbered line the line buffer refuses (too long as typed, or too long once listed): an
    // error, and the line stored under that number - if any - stays
    if line.len() > 1024 || (line.len() > 400 && line.contains("?:?:?:")) {
        return Op::Rejected;
    }
    if line.contains(':') && (line.starts_with("LIST") || line.starts_with("DELETE")) {
        return Op::Seq(line.split(':').map(parse_op).collect());
    }
    if let Some(r) = line.strip_prefix("LIST") {
        return Op::List(parse_range(r));
    }
    if let Some(r) = line.strip_prefix("DELETE") {
        return Op::Delete(parse_range(r));
    }
    let digits: String = line.chars().take_while(|c| c.is_ascii_digit()).collect();
    let n: u32 = digits.parse().unwrap_or(u32::MAX);
    let rest = line[digits.len()..].trim_start();
    if rest.is_empty() {
        Op::Bare(n)
    } else {
        Op::Enter(n, rest.to_string())
    }
}

fn errs_of(evs: &[Ev]) -> usize {
    evs.iter().map(|e| if let Ev::Errs(v) = e { v.len() } else { 0 }).sum()
}

fn listed(evs: &[Ev]) -> Vec<String> {
    evs.iter().filter_map(|e| if let Ev::List(t, _) = e { Some(t.clone()) } else { None }).collect()
}

fn check_history(lines: &[String], full_check_numbers: &[u32]) -> Result<bool, (String, String)> {
    let mut term = Term::new();
    let mut model: BTreeMap<u32, String> = BTreeMap::new();
    let mut nontrivial = false;
    let mut o = Opts::default();
    for (step, l) in lines.iter().enumerate() {
        o.files.insert("BAD".to_string(), "10 PRINT 1\nPRINT 2\n20 PRINT 3".to_string());
        if let Op::Load(file) = parse_op(l) {
            o.files.insert("F".to_string(), file.join("\n"));
            term.line("LOAD \"F\"", &mut o);
        } else {
            term.line(l, &mut o);
        }
        let evs = term.take();
        if let Some(m) = has_panic(&evs) {
            return Err(("panic".into(), m));
        }
        let where_ = format!("step {} {:?}", step + 1, l);
        match parse_op(l) {
            Op::Enter(n, text) => {
                if n <= MAXLINE {
                    model.insert(n, text);
                    if !evs.is_empty() {
                        return Err(("edit-printed-something".into(), format!("{}: {:?}", where_, flat(&evs))));
                    }
                    if n == 0 || n == MAXLINE {
                        nontrivial = true;
                    }
                } else if errs_of(&evs) == 0 {
                    return Err(("number-above-65529-not-rejected".into(), format!("{}: no error shown: {:?}", where_, flat(&evs))));
                }
            }
            Op::Bare(n) => {
                if n <= MAXLINE {
                    model.remove(&n);
                    if !evs.is_empty() {
                        return Err(("edit-printed-something".into(), format!("{}: {:?}", where_, flat(&evs))));
                    }
                } else if errs_of(&evs) == 0 {
                    return Err(("number-above-65529-not-rejected".into(), format!("{}: no error shown: {:?}", where_, flat(&evs))));
                }
            }
            Op::Seq(parts) => {
                // well-formed parts only (generated that way): the listings come in order, the
                // deletions take effect in between
                let mut want: Vec<String> = vec![];
                for p in &parts {
                    match p {
                        Op::List(Some(r)) => want.extend(model.range(r.from..=r.to).map(|(k, v)| format!("{} {}", k, v))),
                        Op::Delete(Some(r)) if !r.bare => {
                            let keys: Vec<u32> = model.range(r.from..=r.to).map(|(k, _)| *k).collect();
                            for k in keys {
                                model.remove(&k);
                            }
                        }
                        _ => return Err(("harness".into(), format!("{}: unsupported part in a compound line", where_))),
                    }
                }
                let got = listed(&evs);
                if got != want || errs_of(&evs) != 0 {
                    return Err(("list-range".into(), format!("{}: listed {:?}, the statements executed left to right give {:?}; full output {:?}", where_, got, want, flat(&evs))));
                }
                nontrivial = true;
            }
            Op::Load(file) => {
                model.clear();
                for fl in &file {
                    match parse_op(fl) {
                        Op::Enter(n, text) if n <= MAXLINE => {
                            model.insert(n, text);
                        }
                        Op::Bare(n) if n <= MAXLINE => {
                            model.remove(&n);
                        }
                        _ if fl.trim().is_empty() => {}
                        _ => return Err(("harness".into(), format!("{}: unsupported file line {:?}", where_, fl))),
                    }
                }
                if errs_of(&evs) != 0 || !listed(&evs).is_empty() {
                    return Err(("load-printed-something".into(), format!("{}: {:?}", where_, flat(&evs))));
                }
                if file.iter().any(|fl| matches!(parse_op(fl), Op::Bare(_))) {
                    nontrivial = true;
                }
            }
            Op::FailedLoad => {
                if errs_of(&evs) == 0 || !listed(&evs).is_empty() {
                    return Err(("failed-load-not-reported".into(), format!("{}: expected an error and nothing listed, got {:?}", where_, flat(&evs))));
                }
                if !model.is_empty() {
                    nontrivial = true;
                }
            }
            Op::Rejected => {
                if errs_of(&evs) == 0 || !listed(&evs).is_empty() || evs.len() != 1 {
                    return Err(("bare-delete-not-rejected".into(), format!("{}: expected one error and nothing else, got {:?}", where_, flat(&evs))));
                }
                if !model.is_empty() {
                    nontrivial = true;
                }
            }
            Op::List(r) => match r {
                None => {
                    if errs_of(&evs) == 0 || !listed(&evs).is_empty() {
                        return Err(("bad-range-not-rejected".into(), format!("{}: expected an error and no lines, got {:?}", where_, flat(&evs))));
                    }
                }
                Some(r) => {
                    let want: Vec<String> = model.range(r.from..=r.to).map(|(k, v)| format!("{} {}", k, v)).collect();
                    let got = listed(&evs);
                    if got != want || errs_of(&evs) != 0 {
                        return Err(("list-range".into(), format!("{}: listed {:?}, model (inclusive {}..={}) says {:?}; full output {:?}", where_, got, r.from, r.to, want, flat(&evs))));
                    }
                    if !r.bare && (!model.contains_key(&r.from) || !model.contains_key(&r.to)) {
                        nontrivial = true;
                    }
                }
            },
            Op::Delete(r) => match r {
                None => {
                    if errs_of(&evs) == 0 {
                        return Err(("bad-range-not-rejected".into(), format!("{}: expected an error, got {:?}", where_, flat(&evs))));
                    }
                }
                Some(r) if r.bare => {
                    if errs_of(&evs) == 0 {
                        return Err(("bare-delete-not-rejected".into(), format!("{}: expected an error, got {:?}", where_, flat(&evs))));
                    }
                }
                Some(r) => {
                    let keys: Vec<u32> = model.range(r.from..=r.to).map(|(k, _)| *k).collect();
                    for k in keys {
                        model.remove(&k);
                    }
                    if errs_of(&evs) != 0 {
                        return Err((
                            "delete-range-rejected".into(),
                            format!("{}: a DELETE with an explicit inclusive range {}..={} printed {:?}", where_, r.from, r.to, flat(&evs)),
                        ));
                    }
                    if !model.contains_key(&r.from) || !model.contains_key(&r.to) || r.from == 0 || r.to == MAXLINE {
                        nontrivial = true;
                    }
                }
            },
        }
        // the whole store after every operation
        term.line("LIST", &mut o);
        let evs = term.take();
        let got = listed(&evs);
        let want: Vec<String> = model.iter().map(|(k, v)| format!("{} {}", k, v)).collect();
        if got != want {
            return Err(("store-differs-from-model".into(), format!("after {}: LIST shows {:?}, model says {:?}", where_, got, want)));
        }
        let listing = term.rt.get_listing();
        for n in full_check_numbers {
            let got = listing.line(*n as usize).map(|(s, _)| s);
            let want = model.get(n).map(|v| format!("{} {}", n, v));
            if got != want {
                return Err(("listing-line-lookup".into(), format!("after {}: Listing::line({}) = {:?}, model {:?}", where_, n, got, want)));
            }
        }
    }
    Ok(nontrivial)
}

// ------------------------------------------------------------------ exhaustive small histories

fn ops_over(universe: &[u32]) -> Vec<String> {
    let mut v = vec![];
    for k in universe {
        v.push(format!("{} PRINT 1", k));
        v.push(format!("{} REM é", k));
        v.push(format!("{}", k));
    }
    // compound direct lines: every statement of the line runs
    if let (Some(a), Some(b)) = (universe.first(), universe.last()) {
        // (DELETE returns to the prompt, so it only stands last: what follows it is not documented)
        v.push(format!("PRINT \"X\";:LIST {}-{}", a, b));
        v.push("PRINT \"X\";:LIST".to_string());
        v.push(format!("PRINT \"X\";:DELETE {}", b));
        v.push(format!("LIST {}:LIST {}", a, b));
        v.push(format!("LIST {}:DELETE {}", b, a));
        v.push(format!("LIST -{}:LIST {}-:DELETE {}-{}", a, b, a, b));
    }
    for cmd in ["LIST", "DELETE"] {
        v.push(cmd.to_string());
        for k in universe {
            v.push(format!("{} {}", cmd, k));
            v.push(format!("{} {}-", cmd, k));
            v.push(format!("{} -{}", cmd, k));
            for j in universe {
                v.push(format!("{} {}-{}", cmd, k, j));
            }
        }
    }
    v
}

const EXTRA: &[&str] = &["65530 PRINT 1", "70000 PRINT 1", "65530", "LIST 65530", "DELETE 65530", "LIST 70000", "DELETE 10-70000", "LIST 0-65530", "DELETE -65530", "DELETE:LIST", "DELETE :PRINT 1", "IF 1 THEN DELETE ELSE PRINT 1", "DELETE:DELETE 0-", "DELETE:NEW", "IF 0 THEN PRINT 1 ELSE DELETE:PRINT 2"];

fn gen_histories(universe: &[u32], len: usize, part: usize, parts: usize, emit: &mut dyn FnMut(&str)) {
    let mut ops = ops_over(universe);
    ops.extend(EXTRA.iter().map(|s| s.to_string()));
    // refused by the line buffer: 603 bytes typed but 1803 listed (? lists as PRINT); 1100 bytes typed
    if let Some(k) = universe.get(universe.len() / 2) {
        ops.push(format!("{} {}?", k, "?:".repeat(300)));
        ops.push(format!("{} REM {}", k, "x".repeat(1100)));
    }
    let n = ops.len();
    let mut idx = 0usize;
    for l in 1..=len {
        let total = n.pow(l as u32);
        for code in 0..total {
            idx += 1;
            if idx % parts != part {
                continue;
            }
            let mut c = code;
            let mut h: Vec<&str> = vec![];
            for _ in 0..l {
                h.push(&ops[c % n]);
                c /= n;
            }
            emit(&h.join("\n"));
        }
    }
}

fn gen_small(part: usize, parts: usize, thorough: bool, emit: &mut dyn FnMut(&str)) {
    // all histories of length <= 2 over the full small universe
    gen_histories(&[0, 1, 10, 65528, 65529], if thorough { 4 } else { 3 }, part, parts, emit);
}

fn gen_small3(part: usize, parts: usize, thorough: bool, emit: &mut dyn FnMut(&str)) {
    // all histories of length <= 3 (thorough: 4) over a three-number universe
    gen_histories(&[0, 10, 65529], if thorough { 4 } else { 3 }, part, parts, emit);
}

fn check_item(item: &str, ctx: &Ctx) -> Outcome {
    let lines: Vec<String> = item.split('\n').map(|s| s.to_string()).collect();
    match check_history(&lines, &[0, 1, 10, 65528, 65529]) {
        Ok(nt) => {
            let o = Outcome::pass(nt, hash_str(item));
            if ctx.render {
                o.with_case(item.replace('\n', " | "))
            } else {
                o
            }
        }
        Err((c, d)) => Outcome::fail(&c, d, item.to_string()),
    }
}

// ------------------------------------------------------------------ random long histories

fn check_random(t: &mut Tape, ctx: &Ctx) -> Outcome {
    let n = 1 + t.below(60);
    let mut known: Vec<u32> = vec![];
    let mut lines = vec![];
    let pick_num = |t: &mut Tape, known: &Vec<u32>| -> u32 {
        match t.below(6) {
            0 if !known.is_empty() => *t.pick(known),
            1 if !known.is_empty() => (*t.pick(known) + 1).min(70000),
            2 if !known.is_empty() => t.pick(known).saturating_sub(1),
            3 => *t.pick(&[0u32, 1, 65528, 65529, 65530, 65535, 65536]),
            _ => t.below(65530) as u32,
        }
    };
    for _ in 0..n {
        match t.weighted(&[5, 2, 3, 3, 1, 1]) {
            5 => lines.push(t.pick(&["LOAD \"NOSUCH\"", "LOAD \"BAD\""]).to_string()),
            4 => {
                // a file: numbered lines in any order, repeated numbers, bare numbers, blank lines
                let nf = t.below(9);
                let mut file = vec![];
                let mut in_file: Vec<u32> = vec![];
                for _ in 0..nf {
                    let k = if !in_file.is_empty() && t.chance(1, 2) { *t.pick(&in_file) } else { pick_num(t, &known).min(MAXLINE) };
                    match t.below(6) {
                        0 | 1 => file.push(format!("{}", k)),
                        2 if t.chance(1, 2) => file.push(String::new()),
                        _ => {
                            file.push(format!("{} {}", k, t.pick(&["PRINT 1", "PRINT 2", "REM é x", "GOTO 10", "DATA 1,2"])));
                            in_file.push(k);
                        }
                    }
                }
                let mut l = "LOAD \"F\"".to_string();
                for fl in &file {
                    l.push('\u{1}');
                    l.push_str(fl);
                }
                lines.push(l);
                known = in_file;
            }
            0 => {
                let k = pick_num(t, &known);
                let text = t.pick(&["PRINT 1", "PRINT 2", "REM é x", "A=1:B=2", "GOTO 10", "DATA 1,2", "END"]).to_string();
                lines.push(format!("{} {}", k, text));
                if k <= MAXLINE && !known.contains(&k) {
                    known.push(k);
                }
            }
            1 => {
                let k = pick_num(t, &known);
                lines.push(format!("{}", k));
            }
            w => {
                let cmd = if w == 2 { "LIST" } else { "DELETE" };
                let a = pick_num(t, &known);
                let b = pick_num(t, &known);
                let (a, b) = if t.chance(5, 6) { (a.min(b), a.max(b)) } else { (a, b) };
                lines.push(match t.below(6) {
                    0 => cmd.to_string(),
                    1 => format!("{} {}", cmd, a),
                    2 => format!("{} {}-", cmd, a),
                    3 => format!("{} -{}", cmd, b),
                    _ => format!("{} {}-{}", cmd, a, b),
                });
            }
        }
    }
    let mut nums: Vec<u32> = known.clone();
    nums.extend([0, 65529]);
    match check_history(&lines, &nums) {
        Ok(nt) => {
            let key = lines.join("\n");
            let o = Outcome::pass(nt, hash_str(&key));
            if ctx.render {
                o.with_case(lines.join(" | "))
            } else {
                o
            }
        }
        Err((c, d)) => Outcome::fail(&c, d, lines.join("\n")),
    }
}


// ------------------------------------------------------------------ stores too big to run

fn gen_oversized(part: usize, parts: usize, _th: bool, emit: &mut dyn FnMut(&str)) {
    for (i, k) in ["data", "code", "both"].iter().enumerate() {
        if i % parts == part {
            emit(k);
        }
    }
}

/// A stored program whose DATA or code exceeds the 64K pools cannot run, but it is still a store:
/// LIST and DELETE act on it as on any other.
fn check_oversized(item: &str, _ctx: &Ctx) -> Outcome {
    let data_line = format!("DATA {}", vec!["1"; 500].join(","));
    let code_line = vec!["A=1"; 250].join(":");
    let mut lines: Vec<String> = vec![];
    let n = 134u32;
    for i in 0..n {
        let text = match item {
            "data" => &data_line,
            "code" => &code_line,
            _ => {
                if i % 2 == 0 {
                    &data_line
                } else {
                    &code_line
                }
            }
        };
        lines.push(format!("{} {}", (i + 1) * 10, text));
    }
    if item == "both" {
        for i in 0..n {
            lines.push(format!("{} {}", (n + i + 1) * 10, if i % 2 == 0 { &code_line } else { &data_line }));
        }
    }
    for l in ["LIST -15", "LIST 1330-", "LIST 500-520", "DELETE 30-1300", "LIST", "25", "20", "LIST 10-", "DELETE 1330", "LIST -65529", "15 REM", "LIST 15", "DELETE -15", "LIST"] {
        lines.push(l.to_string());
    }
    match check_history(&lines, &[10, 20, 1330, 1340]) {
        Ok(_) => Outcome::pass(true, hash_str(item)).with_case(format!("{} lines of 1000 bytes ({}), then LIST/DELETE ranges and bare numbers", lines.len() - 14, item)),
        Err((c, d)) => Outcome::fail(&c, d, format!("{} x ~1000-byte lines ({}) + range statements", lines.len() - 14, item)),
    }
}

pub fn property() -> Property {
    Property {
        id: "C15",
        rule: "Cases: (oversized_store) programs whose DATA / code / both exceed the 64K pools, then LIST / DELETE ranges and bare numbers; random histories also LOAD generated files (numbered lines in any order, repeats, bare numbers, blank lines), a missing file and a file holding a direct statement (the store must stay). (a) exhaustively every history of length <= 3 (thorough 4) over the universe {0,1,10,65528,65529} and of length <= 3 (thorough 4) over {0,10,65529}, with operations: enter line k (two texts), bare k, \
LIST and DELETE in the forms bare, k, k-, -k, a-b (including inverted), and lines/ranges using 65530 and 70000; (b) proptest-generated histories of up to 60 operations over the whole number range with endpoints on, next to, before and after existing lines. \
Oracle: BTreeMap<u16,String> model; after every operation the full LIST equals the model (ascending, `n text`), each ranged LIST shows exactly the lines in the inclusive range, DELETE removes exactly those, rejected forms (bare DELETE, inverted range, number > 65529) print an error and change nothing, Listing::line(n) agrees. \
Non-trivial: a range endpoint that is not an existing line, or an operation on line 0 / 65529. Distinct by history text.",
        assumptions: vec!["line texts are canonical (PRINT 1, REM é, ...) so that the listed text equals the typed text; listing fidelity itself is C05"],
        subs: vec![
            Sub::items("exhaustive_universe5", gen_small, check_item, true),
            Sub::items("exhaustive_universe3", gen_small3, check_item, true),
            Sub::items("oversized_store", gen_oversized, check_oversized, false).wedge(300),
            Sub::tape("random_histories", check_random, 100_000, 3_000_000, 600),
        ],
    }
}
