use crate::runner::Property;

pub mod c08;

pub fn property(id: &str) -> Option<Property> {
    match id {
        "C08" => Some(c08::property()),
        _ => None,
    }
}
