use crate::runner::Property;

pub mod c01;
pub mod c02;
pub mod c03;
pub mod c04;
pub mod c05;
pub mod c06;
pub mod c07;
pub mod c08;
pub mod c09;
pub mod c10;
pub mod c11;
pub mod c12;
pub mod c13;
pub mod c14;
pub mod c15;
pub mod c16;
pub mod c17;
pub mod c18;
pub mod c19;
pub mod c20;

pub fn property(id: &str) -> Option<Property> {
    match id {
        "C01" => Some(c01::property()),
        "C02" => Some(c02::property()),
        "C03" => Some(c03::property()),
        "C04" => Some(c04::property()),
        "C05" => Some(c05::property()),
        "C06" => Some(c06::property()),
        "C07" => Some(c07::property()),
        "C08" => Some(c08::property()),
        "C09" => Some(c09::property()),
        "C10" => Some(c10::property()),
        "C11" => Some(c11::property()),
        "C12" => Some(c12::property()),
        "C13" => Some(c13::property()),
        "C14" => Some(c14::property()),
        "C15" => Some(c15::property()),
        "C16" => Some(c16::property()),
        "C17" => Some(c17::property()),
        "C18" => Some(c18::property()),
        "C19" => Some(c19::property()),
        "C20" => Some(c20::property()),
        _ => None,
    }
}
