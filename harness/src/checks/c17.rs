//! C17 — INPUT parses replies as documented and retries atomically per reply.
//! Oracle: the reference interpreter's INPUT (prompt + "? ", caps flag, split at commas outside
//! quotes, trim, unquote, numeric conversion as assignment, REDO FROM START + same prompt).

use crate::bast::*;
use crate::checks::c01::compare;
use crate::expr::*;
use crate::gen::Generated;
use crate::runner::{Ctx, Outcome, Property, Sub};
use crate::sem::{Bin, Ty};
use crate::tape::{hash_str, Tape};

const NUM_OK: &[&str] = &["-.5", "-0.25", "10.9", "11", ".9", "-1", "10", "1", "0", "-3", "2.5", " 7 ", "1E1", "1e2", "1D2", "1d-1", "&H10", "&hff", "&H1D", "&hbad", "&HD", "&H1E", "&He1", "&H7FFF", "&17", "&77777", "&17", "", "  ", "+5", ".5", "5.", "32767", "-32768", "1.5!", "2#", "3%", "1E+2", "0.1", "12345678.9"];
const NUM_BAD: &[&str] = &["x", "1 2", "1,", "12abc", "--1", "1E", ".", "&H", "&8", "&HG", "1.2.3", "\"5\"", "1/2", "é", "$5", "1E5E", "0x10"];
const INT_RANGE: &[&str] = &["32768", "-32769", "40000", "1E10", "99999", "32767.5", "-32768.5", "NAN", "nan", "-NAN", "INF", "-inf", "+Inf", "1E39", "1D400"];
const STR_FIELDS: &[&str] = &["HELLO", "x", "\"a,b\"", " pad ", "é", "", "\"\"", "\" lead\"", "\"in \"\" side\"", "\"", "a\"b", "\"open", "日本 語", "1,5", "  \"q\"  ", "'single'"];

fn v(n: &str) -> E {
    E::Var(Name::new(n))
}

struct Built {
    stmt: Stmt,
    targets: Vec<(Lval, Ty)>,
    shape_tys: Vec<Ty>,
    deftype: bool,
}

fn build_input(t: &mut Tape) -> Built {
    let n = 1 + t.below(5);
    let mut targets: Vec<(Lval, Ty)> = vec![];
    // a third of the cases type some undecorated names by their first letter (DEFSTR N, DEFINT M,
    // DEFDBL L): a variable's type is its type however it got it, and a suffix still wins
    let deftype = t.chance(1, 3);
    let mut names: Vec<(&str, Ty)> = vec![("A", Ty::Sng), ("B%", Ty::Int), ("C#", Ty::Dbl), ("S$", Ty::Str), ("T$", Ty::Str), ("D!", Ty::Sng), ("I%", Ty::Int), ("X", Ty::Sng)];
    if deftype {
        names.extend([("N", Ty::Str), ("NA", Ty::Str), ("M", Ty::Int), ("L", Ty::Dbl), ("N%", Ty::Int), ("M$", Ty::Str), ("N1", Ty::Str)]);
    }
    let names = &names[..];
    for k in 0..n {
        // an array target whose subscript uses an earlier Integer target (kept in range by AND 7)
        let want_float = t.chance(1, 3);
        let earlier_int = targets
            .iter()
            .find(|(lv, ty)| matches!(lv, Lval::Var(_)) && if want_float { *ty == Ty::Sng || *ty == Ty::Dbl } else { *ty == Ty::Int })
            .map(|(lv, _)| lv.name().clone());
        if k > 0 && t.chance(1, 4) {
            if let Some(i) = earlier_int {
                let (arr, ty) = *t.pick(&[("Q", Ty::Sng), ("R%", Ty::Int), ("U$", Ty::Str)]);
                // (a float subscript is floored: -.5 is -1 and out of range, 10.9 is 10)
                let sub = if !want_float && t.chance(1, 2) { E::Bin(Bin::And, Box::new(E::Var(i)), Box::new(E::Lit("7".into()))) } else { E::Var(i) };
                targets.push((Lval::Elem(Name::new(arr), vec![sub]), ty));
                continue;
            }
        }
        let (nm, ty) = *t.pick(names);
        if targets.iter().any(|(lv, _)| lv.name().text() == nm) {
            let (nm2, ty2) = names[(k * 3 + 1) % names.len()];
            if targets.iter().any(|(lv, _)| lv.name().text() == nm2) {
                continue;
            }
            targets.push((Lval::Var(Name::new(nm2)), ty2));
        } else {
            targets.push((Lval::Var(Name::new(nm)), ty));
        }
    }
    if targets.is_empty() {
        targets.push((Lval::Var(Name::new("A")), Ty::Sng));
    }
    let prompt = match t.below(4) {
        0 => None,
        1 => Some("VALUE".to_string()),
        2 => Some("Wie heißt du, 名前".to_string()),
        _ => Some("".to_string()),
    };
    let nocaps = t.chance(1, 3);
    let shape_tys = targets.iter().map(|(_, t)| *t).collect();
    Built { stmt: Stmt::Input { nocaps, prompt, targets: targets.iter().map(|(l, _)| l.clone()).collect() }, targets, shape_tys, deftype }
}

fn field_for(t: &mut Tape, ty: Ty, good: bool) -> String {
    if ty != Ty::Str && t.chance(1, 3) {
        // a generated numeric text; the reference decides whether it converts
        let x = crate::textgen::numeric_text(t);
        if !x.contains(',') && !x.contains('"') {
            return x;
        }
    }
    match ty {
        Ty::Str => {
            if good && t.chance(1, 12) {
                // long but legal: the limit is 255 characters, whatever they take in bytes
                match t.below(3) {
                    0 => "é".repeat(130),
                    1 => "日".repeat(255),
                    _ => format!("\"{}\"", "ß".repeat(200)),
                }
            } else if good || t.chance(1, 2) {
                t.pick(STR_FIELDS).to_string()
            } else {
                "é".repeat(256)
            }
        }
        Ty::Int => {
            if good {
                t.pick(&["1", "0", "-3", "7", " 2 ", "&H10", "", "2.5", "1E1", "3%", "6"]).to_string()
            } else if t.chance(1, 2) {
                t.pick(INT_RANGE).to_string()
            } else {
                t.pick(NUM_BAD).to_string()
            }
        }
        _ => {
            if good {
                t.pick(NUM_OK).to_string()
            } else {
                t.pick(NUM_BAD).to_string()
            }
        }
    }
}

fn reply_for(t: &mut Tape, tys: &[Ty]) -> (String, &'static str) {
    match t.weighted(&[6, 2, 2, 2, 1, 1]) {
        0 => (tys.iter().map(|ty| field_for(t, *ty, true)).collect::<Vec<_>>().join(","), "well-formed"),
        1 => {
            // one bad field
            let bad = t.below(tys.len());
            (tys.iter().enumerate().map(|(i, ty)| field_for(t, *ty, i != bad)).collect::<Vec<_>>().join(","), "one unconvertible field")
        }
        2 => {
            // too few / too many fields
            let mut f: Vec<String> = tys.iter().map(|ty| field_for(t, *ty, true)).collect();
            if t.chance(1, 2) && f.len() > 1 {
                f.pop();
            } else {
                f.push("9".into());
            }
            (f.join(","), "wrong field count")
        }
        3 => {
            // commas inside quotes, blanks around
            let f: Vec<String> = tys.iter().map(|ty| if *ty == Ty::Str { format!(" \"x,{}\" ", t.below(9)) } else { format!("  {}  ", t.below(90)) }).collect();
            (f.join(","), "quoted commas and blanks")
        }
        4 => ("x".repeat(1025), "reply longer than 1024 bytes"),
        _ => (crate::textgen::arbitrary_text(t, 20).replace('\n', " ").replace('\r', " "), "arbitrary text"),
    }
}

fn check_input(t: &mut Tape, ctx: &Ctx) -> Outcome {
    let b = build_input(t);
    let mut prog = Program::default();
    let uses_arrays = b.targets.iter().any(|(l, _)| matches!(l, Lval::Elem(_, _)));
    if b.deftype {
        prog.lines.push(Line { num: 1, stmts: vec![Stmt::DefType(Ty::Str, 'N', 'N'), Stmt::DefType(Ty::Int, 'M', 'M'), Stmt::DefType(Ty::Dbl, 'L', 'L')] });
    }
    // optional pre-set values so that "unchanged" is visible
    prog.lines.push(Line { num: 5, stmts: vec![Stmt::Let { lv: Lval::Var(Name::new("A")), e: E::Lit("77".into()), kw: false }, Stmt::Let { lv: Lval::Var(Name::new("S$")), e: E::Str("old".into()), kw: false }] });
    prog.lines.push(Line { num: 10, stmts: vec![b.stmt.clone()] });
    let mut items = vec![PItem::Expr(E::Str("|".into()))];
    for (lv, _) in &b.targets {
        items.push(PItem::Semi);
        items.push(PItem::Expr(lv.as_expr()));
        items.push(PItem::Semi);
        items.push(PItem::Expr(E::Str("|".into())));
    }
    prog.lines.push(Line { num: 20, stmts: vec![Stmt::Print(items)] });
    // the type of what was stored: Integer targets hold Integers etc.
    let mut probes = vec![];
    for (lv, ty) in &b.targets {
        if *ty != Ty::Str {
            probes.push(E::Bin(Bin::Add, Box::new(E::Bin(Bin::Mul, Box::new(lv.as_expr()), Box::new(E::Lit("0".into())))), Box::new(E::Lit(".1".into()))));
        } else {
            probes.push(E::Call("LEN", vec![lv.as_expr()]));
        }
    }
    prog.lines.push(Line { num: 30, stmts: vec![Stmt::Print(probes.into_iter().flat_map(|e| vec![PItem::Expr(e), PItem::Semi]).collect())] });
    // a second INPUT of the same shape in a loop, to see the column reset and repeated prompts
    let twice = t.chance(1, 3);
    if twice {
        prog.lines.push(Line { num: 40, stmts: vec![Stmt::Let { lv: Lval::Var(Name::new("K9%")), e: E::Bin(Bin::Add, Box::new(v("K9%")), Box::new(E::Lit("1".into()))), kw: false }, Stmt::If { c: E::Bin(Bin::Lt, Box::new(v("K9%")), Box::new(E::Lit("2".into()))), then_: Arm::Line(10), else_: None, goto_form: false }] });
    }
    prog.lines.push(Line { num: 50, stmts: vec![Stmt::Print(vec![PItem::Expr(E::Str("done".into())), PItem::Semi, PItem::Expr(E::Call("POS", vec![E::Lit("0".into())]))])] });
    let nrep = 1 + t.below(4);
    let mut replies = vec![];
    let mut kinds: Vec<&'static str> = vec![];
    for _ in 0..nrep {
        let (r, k) = reply_for(t, &b.shape_tys);
        replies.push(r);
        kinds.push(k);
    }
    // make sure the dialogue can end: acceptable replies last
    for _ in 0..(if twice { 2 } else { 1 }) {
        replies.push(b.shape_tys.iter().map(|ty| if *ty == Ty::Str { "ok".to_string() } else { "4".to_string() }).collect::<Vec<_>>().join(","));
    }
    let g = Generated { prog, replies: replies.clone(), probes: vec![] };
    let directs = vec![vec![Stmt::Run(None)]];
    let case = format!("{}\n> RUN\nreplies: {:?}", g.prog.text(), replies.iter().map(|r| if r.len() > 60 { format!("{}…({} bytes)", r.chars().take(20).collect::<String>(), r.len()) } else { r.clone() }).collect::<Vec<_>>());
    crate::runner::note_case(&case);
    match compare(&g, &directs, 5000) {
        Ok((mut labels, _)) => {
            kinds.sort();
            kinds.dedup();
            labels.extend(kinds);
            if uses_arrays {
                labels.push("array target subscripted by an earlier field");
            }
            let rejected = labels.contains(&"REDO FROM START");
            let quoted = replies.iter().any(|r| r.contains("\"") && r.contains(','));
            let nt = b.targets.len() >= 2 && (rejected || quoted);
            let o = Outcome::pass(nt, hash_str(&case)).with_labels(labels);
            if ctx.render {
                o.with_case(case)
            } else {
                o
            }
        }
        Err(Ok(why)) => Outcome::discard(why),
        Err(Err((c, d))) => Outcome::fail(&c, d, case),
    }
}


// ------------------------------------------------------------------ literal cases

const CASES: &[&str] = &[
    "10 DEFSTR N:INPUT N:PRINT \"[\";N;\"]\"\nRUN\n<123\n=> ? «caps»123\n[123]\n",
    "10 DEFSTR N:INPUT N,N%:PRINT \"[\";N;\"]\";N%\nRUN\n<\"a,b\", 7 \n=> ? «caps»\"a,b\", 7 \n[a,b] 7 \n",
];

fn gen_cases(part: usize, parts: usize, _th: bool, emit: &mut dyn FnMut(&str)) {
    for (i, s) in CASES.iter().enumerate() {
        if i % parts == part {
            emit(s);
        }
    }
}

/// Lines are typed; lines starting with `<` are replies to INPUT.
fn check_case(item: &str, _ctx: &Ctx) -> Outcome {
    let (prog, want) = match item.rsplit_once("\n=> ") {
        Some((p, w)) => (p, w.to_string()),
        None => return Outcome::discard("no expectation"),
    };
    let mut term = crate::drive::Term::new();
    let mut o = crate::drive::Opts::default();
    o.replies = prog.split('\n').filter_map(|l| l.strip_prefix('<')).map(|r| r.to_string()).collect();
    for l in prog.split('\n').filter(|l| !l.starts_with('<')) {
        term.line(l, &mut o);
    }
    let evs = term.take();
    if let Some(m) = crate::drive::has_panic(&evs) {
        return Outcome::fail("panic", m, item.to_string());
    }
    let got = crate::drive::flat(&evs);
    if got != want {
        return Outcome::fail("input-case", format!("got {:?}\nwant {:?}", got, want), item.to_string());
    }
    Outcome::pass(true, hash_str(item)).with_case(item.to_string())
}

pub fn property() -> Property {
    Property {
        id: "C17",
        rule: "Cases: proptest-generated INPUT statements — (a third of them after DEFSTR N:DEFINT M:DEFDBL L, with undecorated and suffixed targets of those letters) with / without / with an empty prompt (also non-ASCII), with and without the leading comma, 1-5 targets of every type, array targets subscripted by an earlier Integer target — and reply scripts of 1-4 replies followed by acceptable ones: well-formed, one unconvertible field (non-numeric text, Integer out of range, malformed exponent, bad radix digits, 256-character string), \
too few / too many fields, commas inside quotes with surrounding blanks, empty fields, decimal / E e D d exponent / & / &H / suffixed numbers, a reply longer than 1024 bytes, arbitrary text; optionally the statement is executed twice. \
Oracle: the reference interpreter (prompt text + `? `, caps flag off exactly for the leading-comma form, exactly n fields (one variable takes the whole reply), trim, one pair of enclosing quotes stripped for strings, conversion as assignment with empty = 0, REDO FROM START and the same prompt after any unacceptable reply, the statement after INPUT sees the accepted values, cursor column 0 afterwards); \
the stored values' types are probed. Non-trivial: >= 2 targets and (a rejected reply or a quoted comma). Distinct by statement + replies.",
        assumptions: vec![
            "undocumented numeric spellings (INF, NAN, a sign after & / &H) are not generated",
            "only the values of the targets after acceptance are compared; what a rejected reply may have written on the way is not asserted",
        ],
        subs: vec![Sub::items("input_cases", gen_cases, check_case, false), Sub::tape("input_dialogues", check_input, 300_000, 6_000_000, 300)],
    }
}
