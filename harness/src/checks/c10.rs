//! C10 — user functions bind parameters locally and evaluate at call time.
//! Oracle: the reference interpreter (call by value, parameter converted like an assignment to
//! its own type, body evaluated at call time in the global environment extended by the
//! parameters, globals untouched).

use crate::bast::*;
use crate::drive::{flat, has_panic, Opts, Term};
use crate::expr::*;
use crate::model::{same_transcript, Halt, Machine};
use crate::runner::{Ctx, Outcome, Property, Sub};
use crate::sem::{Bin, Ty};
use crate::tape::{hash_str, Tape};

fn v(n: &str) -> E {
    E::Var(Name::new(n))
}

fn lit(n: i64) -> E {
    if n < 0 {
        E::Neg(Box::new(E::Lit((-n).to_string())))
    } else {
        E::Lit(n.to_string())
    }
}

fn bin(op: Bin, a: E, b: E) -> E {
    E::Bin(op, Box::new(a), Box::new(b))
}

#[derive(Clone)]
struct F {
    name: Name,
    params: Vec<(Name, Ty)>,
    ret: Ty,
}

const PARAM_NAMES: &[(&str, Ty)] = &[("A", Ty::Sng), ("B%", Ty::Int), ("C#", Ty::Dbl), ("S$", Ty::Str), ("X", Ty::Sng), ("P", Ty::Sng), ("N%", Ty::Int), ("T$", Ty::Str), ("D!", Ty::Sng), ("F", Ty::Sng)];
const GLOBALS_NUM: &[&str] = &["A", "B%", "C#", "X", "G", "H%", "P", "N%", "F"];
const GLOBALS_STR: &[&str] = &["S$", "T$", "U$"];

struct Gen<'a, 'b> {
    t: &'a mut Tape<'b>,
    fns: Vec<F>,
    nested: bool,
    in_subscript_or_bound: bool,
}

impl<'a, 'b> Gen<'a, 'b> {
    fn num_arg(&mut self, depth: usize, scope: &[(Name, Ty)]) -> E {
        if self.t.chance(1, 10) {
            // an element of a program array that is named like a parameter: a parameter hides the
            // variable of its name, not the array
            let n = self.t.pick_str(&["X", "A", "P", "F"]);
            return E::Elem(Name::new(n), vec![lit(self.t.range(1, 2))]);
        }
        match self.t.below(7) {
            0 | 1 => lit(self.t.range(-3, 9)),
            2 => E::Lit(self.t.pick(&["1.5", "2.75", ".5", "3#", "2!", "7%"]).to_string()),
            3 => {
                let nums: Vec<&(Name, Ty)> = scope.iter().filter(|(_, t)| *t != Ty::Str).collect();
                if !nums.is_empty() && self.t.chance(2, 3) {
                    E::Var(nums[self.t.below(nums.len())].0.clone())
                } else {
                    v(self.t.pick_str(GLOBALS_NUM))
                }
            }
            4 if depth > 0 => {
                let a = self.num_arg(depth - 1, scope);
                let b = self.num_arg(depth - 1, scope);
                bin(*self.t.pick(&[Bin::Add, Bin::Sub, Bin::Mul]), a, b)
            }
            5 if depth > 0 && !self.fns.is_empty() => {
                self.nested = true;
                self.call(depth - 1, scope, false)
            }
            _ => v(self.t.pick_str(GLOBALS_NUM)),
        }
    }

    fn str_arg(&mut self, depth: usize, scope: &[(Name, Ty)]) -> E {
        if self.t.chance(1, 12) {
            let n = self.t.pick_str(&["S$", "T$"]);
            return E::Elem(Name::new(n), vec![lit(self.t.range(1, 2))]);
        }
        match self.t.below(5) {
            0 => E::Str(self.t.pick(&["", "A", "HI", "é", "xyz"]).to_string()),
            1 => {
                let strs: Vec<&(Name, Ty)> = scope.iter().filter(|(_, t)| *t == Ty::Str).collect();
                if !strs.is_empty() {
                    E::Var(strs[self.t.below(strs.len())].0.clone())
                } else {
                    v(self.t.pick_str(GLOBALS_STR))
                }
            }
            2 if depth > 0 => {
                let a = self.str_arg(depth - 1, scope);
                let b = self.str_arg(depth - 1, scope);
                bin(Bin::Add, a, b)
            }
            3 if depth > 0 && self.fns.iter().any(|f| f.ret == Ty::Str) => {
                self.nested = true;
                self.call(depth - 1, scope, true)
            }
            _ => v(self.t.pick_str(GLOBALS_STR)),
        }
    }

    /// A call of one of the already defined functions with well-typed arguments.
    fn call(&mut self, depth: usize, scope: &[(Name, Ty)], want_str: bool) -> E {
        let c: Vec<usize> = (0..self.fns.len()).filter(|i| (self.fns[*i].ret == Ty::Str) == want_str).collect();
        if c.is_empty() {
            return if want_str { E::Str("Q".into()) } else { lit(1) };
        }
        let f = self.fns[c[self.t.below(c.len())]].clone();
        let args: Vec<E> = f.params.iter().map(|(_, ty)| if *ty == Ty::Str { self.str_arg(depth, scope) } else { self.num_arg(depth, scope) }).collect();
        E::Fn(f.name.clone(), args)
    }

    fn define(&mut self, k: usize) -> Stmt {
        let ret = *self.t.pick(&[Ty::Sng, Ty::Sng, Ty::Int, Ty::Dbl, Ty::Str]);
        let suffix = match ret {
            Ty::Int => "%",
            Ty::Dbl => "#",
            Ty::Str => "$",
            Ty::Sng => {
                if self.t.chance(1, 4) {
                    "!"
                } else {
                    ""
                }
            }
        };
        let mut base = ["A", "B", "C", "D", "E", "G"][k].to_string();
        if k > 0 && suffix != "!" && self.t.chance(1, 3) {
            // the same base name as an earlier function, told apart by the type character only
            let e = self.fns[self.t.below(self.fns.len())].name.text().to_string();
            let eb: String = e[2..].chars().filter(|c| c.is_ascii_alphanumeric()).collect();
            let cand = format!("FN{}{}", eb, suffix);
            if !e.ends_with('!') && !self.fns.iter().any(|f| f.name.text() == cand) {
                base = eb;
            }
        }
        let name = Name::new(&format!("FN{}{}", base, suffix));
        let np = 1 + self.t.below(4);
        let mut params: Vec<(Name, Ty)> = vec![];
        for _ in 0..np {
            let (n, ty) = *self.t.pick(PARAM_NAMES);
            if params.iter().any(|(p, _)| p.text() == n) {
                continue;
            }
            params.push((Name::new(n), ty));
        }
        // the body: parameters, globals and earlier functions; forced to the type of the name
        let body = if ret == Ty::Str {
            let mut e = self.str_arg(2, &params);
            if let Some((p, _)) = params.iter().find(|(_, t)| *t == Ty::Str) {
                e = bin(Bin::Add, E::Var(p.clone()), e);
            } else if let Some((p, _)) = params.first() {
                e = bin(Bin::Add, E::Call("STR$", vec![E::Var(p.clone())]), e);
            }
            e
        } else {
            let mut e = self.num_arg(2, &params);
            for (p, ty) in params.clone().iter() {
                if self.t.chance(2, 3) {
                    let pe = if *ty == Ty::Str { E::Call("LEN", vec![E::Var(p.clone())]) } else { E::Var(p.clone()) };
                    e = bin(*self.t.pick(&[Bin::Add, Bin::Sub, Bin::Mul]), e, pe);
                }
            }
            let conv = match ret {
                Ty::Int => "CINT",
                Ty::Dbl => "CDBL",
                _ => "CSNG",
            };
            E::Call(conv, vec![e])
        };
        let f = F { name: name.clone(), params: params.clone(), ret };
        self.fns.push(f);
        Stmt::Def { name, params: params.into_iter().map(|(n, _)| n).collect(), body }
    }
}

fn print_all(names: &[&str]) -> Stmt {
    let mut items = vec![];
    for n in names {
        items.push(PItem::Expr(v(n)));
        items.push(PItem::Semi);
        items.push(PItem::Expr(E::Str("|".into())));
        items.push(PItem::Semi);
    }
    items.pop();
    Stmt::Print(items)
}

const ALL_GLOBALS: &[&str] = &["A", "B%", "C#", "X", "G", "H%", "P", "N%", "F", "D!", "S$", "T$", "U$"];

fn build(t: &mut Tape) -> (Program, bool, bool, &'static str) {
    let mut g = Gen { t, fns: vec![], nested: false, in_subscript_or_bound: false };
    let mut lines: Vec<Vec<Stmt>> = vec![];
    // DEFtype in effect, including the letters of parameters and the letter F
    if g.t.chance(1, 3) {
        let (ty, a, b) = *g.t.pick(&[(Ty::Int, 'F', 'F'), (Ty::Int, 'X', 'X'), (Ty::Dbl, 'P', 'P'), (Ty::Str, 'F', 'F'), (Ty::Int, 'A', 'A'), (Ty::Dbl, 'F', 'G'), (Ty::Int, 'N', 'P')]);
        lines.push(vec![Stmt::DefType(ty, a, b)]);
    }
    // globals that parameters will shadow
    lines.push(vec![
        Stmt::Let { lv: Lval::Var(Name::new("A")), e: lit(g.t.range(1, 9)), kw: false },
        Stmt::Let { lv: Lval::Var(Name::new("B%")), e: lit(g.t.range(1, 9)), kw: false },
        Stmt::Let { lv: Lval::Var(Name::new("C#")), e: E::Lit("2.5".into()), kw: false },
        Stmt::Let { lv: Lval::Var(Name::new("S$")), e: E::Str("glob".into()), kw: false },
    ]);
    lines.push(vec![
        Stmt::Let { lv: Lval::Var(Name::new("X")), e: lit(g.t.range(1, 5)), kw: false },
        Stmt::Let { lv: Lval::Var(Name::new("G")), e: E::Lit("1.5".into()), kw: false },
        Stmt::Let { lv: Lval::Var(Name::new("T$")), e: E::Str("t".into()), kw: false },
        Stmt::Let { lv: Lval::Var(Name::new("N%")), e: lit(3), kw: false },
    ]);
    // arrays named like parameters
    {
        let set = |n: &str, i: i64, e: E| Stmt::Let { lv: Lval::Elem(Name::new(n), vec![lit(i)]), e, kw: false };
        lines.push(vec![set("X", 1, lit(11)), set("X", 2, lit(12)), set("A", 1, lit(21)), set("A", 2, lit(22)), set("P", 1, lit(31)), set("P", 2, lit(32))]);
        lines.push(vec![set("F", 1, lit(41)), set("F", 2, lit(42)), set("S$", 1, E::Str("arr1".into())), set("S$", 2, E::Str("arr2".into())), set("T$", 1, E::Str("u1".into())), set("T$", 2, E::Str("u2".into()))]);
    }
    let error_kind = *g.t.pick(&["none", "none", "none", "arity", "before-def", "recursion", "undefined"]);
    if error_kind == "before-def" {
        lines.push(vec![Stmt::Print(vec![PItem::Expr(E::Fn(Name::new("FNA"), vec![lit(1)]))])]);
    }
    let nf = 1 + g.t.below(6);
    for k in 0..nf {
        let d = g.define(k);
        if g.t.chance(1, 3) && !lines.is_empty() {
            lines.last_mut().unwrap().push(d);
        } else {
            lines.push(vec![d]);
        }
        // statements behind a DEF on the same line see the program's variables again, not the
        // parameters of the function just defined
        if g.t.chance(1, 3) {
            lines.last_mut().unwrap().push(print_all(&["A", "B%", "C#", "S$", "X", "P", "N%", "T$", "D!", "F"]));
        }
    }
    // a later DEF replaces an earlier one
    if g.t.chance(1, 4) {
        let mut f = g.fns[0].clone();
        // ... possibly with another number of parameters: the calls that follow use the new list
        match g.t.below(3) {
            0 if f.params.len() > 1 => {
                f.params.pop();
            }
            1 if f.params.len() < 4 && !f.params.iter().any(|(n, _)| n.text() == "Z9") => f.params.push((Name::new("Z9"), Ty::Sng)),
            _ => {}
        }
        let mut body = if f.ret == Ty::Str { E::Str("redefined".into()) } else { lit(42) };
        if f.ret != Ty::Str {
            for (pn, ty) in f.params.iter() {
                if *ty != Ty::Str {
                    body = bin(Bin::Add, body, E::Var(pn.clone()));
                }
            }
            body = E::Call(match f.ret { Ty::Int => "CINT", Ty::Dbl => "CDBL", _ => "CSNG" }, vec![body]);
        }
        lines.push(vec![Stmt::Def { name: f.name.clone(), params: f.params.iter().map(|(n, _)| n.clone()).collect(), body }]);
        g.fns[0] = f;
    }
    let scope: Vec<(Name, Ty)> = vec![];
    let ncalls = 2 + g.t.below(6);
    let deftype_at = if g.t.chance(1, 4) { Some(1 + g.t.below(ncalls)) } else { None };
    for ci in 0..ncalls {
        if Some(ci) == deftype_at {
            // a DEFtype between two calls: undecorated parameters follow their letter from now on
            let (ty, a, b) = *g.t.pick(&[(Ty::Int, 'X', 'X'), (Ty::Int, 'A', 'A'), (Ty::Dbl, 'P', 'P'), (Ty::Int, 'F', 'F'), (Ty::Dbl, 'A', 'F'), (Ty::Sng, 'A', 'Z'), (Ty::Int, 'P', 'X')]);
            lines.push(vec![Stmt::DefType(ty, a, b)]);
            // DEFtype may drop variables (C06's lenient zone): give every global a known value again
            let set = |n: &str, e: E| Stmt::Let { lv: Lval::Var(Name::new(n)), e, kw: false };
            lines.push(vec![set("A", lit(2)), set("B%", lit(3)), set("C#", E::Lit("2.5".into())), set("S$", E::Str("glob".into())), set("X", lit(4)), set("G", lit(1)), set("T$", E::Str("t".into()))]);
            lines.push(vec![set("N%", lit(3)), set("P", lit(5)), set("F", lit(6)), set("H%", lit(0)), set("D!", lit(0)), set("U$", E::Str("".into()))]);
            let sete = |n: &str, i: i64, e: E| Stmt::Let { lv: Lval::Elem(Name::new(n), vec![lit(i)]), e, kw: false };
            lines.push(vec![sete("X", 1, lit(11)), sete("X", 2, lit(12)), sete("A", 1, lit(21)), sete("A", 2, lit(22)), sete("P", 1, lit(31)), sete("P", 2, lit(32))]);
            lines.push(vec![sete("F", 1, lit(41)), sete("F", 2, lit(42)), sete("S$", 1, E::Str("arr1".into())), sete("S$", 2, E::Str("arr2".into())), sete("T$", 1, E::Str("u1".into())), sete("T$", 2, E::Str("u2".into()))]);
        }
        let kind = g.t.below(10);
        if kind == 9 {
            // DEF as the last statement of an IF arm: only the arm that runs defines the function
            let k = g.t.range(0, 5);
            let def = |body: E| Stmt::Def { name: Name::new("FNK"), params: vec![Name::new("X")], body };
            let two = g.t.chance(2, 3);
            lines.push(vec![Stmt::If {
                c: bin(Bin::Gt, v("N%"), lit(k)),
                then_: Arm::Stmts(vec![Stmt::Print(vec![PItem::Expr(E::Str("t".into())), PItem::Semi]), def(bin(Bin::Mul, v("X"), E::Lit("2.5".into())))]),
                else_: if two { Some(Arm::Stmts(vec![def(bin(Bin::Add, v("X"), lit(7)))])) } else { None },
                goto_form: false,
            }]);
            lines.push(vec![Stmt::Print(vec![PItem::Expr(E::Fn(Name::new("FNK"), vec![lit(10)]))])]);
            continue;
        }
        let s: Vec<Stmt> = match kind {
            0 | 1 => {
                let a = g.call(3, &scope, false);
                let ws = g.fns.iter().any(|f| f.ret == Ty::Str) && g.t.chance(1, 2);
                let b = g.call(2, &scope, ws);
                vec![Stmt::Print(vec![PItem::Expr(a), PItem::Semi, PItem::Expr(E::Str("|".into())), PItem::Semi, PItem::Expr(b)])]
            }
            2 => {
                g.in_subscript_or_bound = true;
                let c = g.call(2, &scope, false);
                let idx = bin(Bin::And, E::Call("ABS", vec![E::Call("CINT", vec![c])]), lit(7));
                vec![Stmt::Let { lv: Lval::Elem(Name::new("Q"), vec![idx.clone()]), e: lit(5), kw: false }, Stmt::Print(vec![PItem::Expr(E::Elem(Name::new("Q"), vec![idx]))])]
            }
            3 => {
                g.in_subscript_or_bound = true;
                let c = g.call(2, &scope, false);
                let bound = bin(Bin::And, E::Call("ABS", vec![E::Call("CINT", vec![c])]), lit(3));
                vec![Stmt::For { v: Name::new("I"), from: lit(0), to: bound, step: None }, Stmt::Print(vec![PItem::Expr(v("I")), PItem::Semi]), Stmt::Next(vec![]), Stmt::Print(vec![])]
            }
            4 => {
                let c = g.call(2, &scope, false);
                vec![Stmt::If {
                    c: bin(Bin::Gt, c, lit(2)),
                    then_: Arm::Stmts(vec![Stmt::Print(vec![PItem::Expr(E::Str("big".into()))])]),
                    else_: Some(Arm::Stmts(vec![Stmt::Print(vec![PItem::Expr(E::Str("small".into()))])])),
                    goto_form: false,
                }]
            }
            5 => {
                let c = g.call(1, &scope, false);
                vec![Stmt::Let { lv: Lval::Var(Name::new("G")), e: bin(Bin::Add, v("G"), c), kw: false }, print_all(&["G"])]
            }
            6 => {
                // a global changes between two calls: evaluated at call time
                let c = g.call(1, &scope, false);
                vec![
                    Stmt::Print(vec![PItem::Expr(c.clone()), PItem::Semi]),
                    Stmt::Let { lv: Lval::Var(Name::new(g.t.pick_str(&["A", "B%", "G", "X", "P", "F"]))), e: lit(g.t.range(10, 20)), kw: false },
                    Stmt::Print(vec![PItem::Expr(c)]),
                ]
            }
            7 => {
                // inside a WHILE loop
                let c = g.call(1, &scope, false);
                vec![
                    Stmt::Let { lv: Lval::Var(Name::new("W%")), e: lit(0), kw: false },
                    Stmt::While(bin(Bin::Lt, v("W%"), lit(2))),
                    Stmt::Print(vec![PItem::Expr(c), PItem::Semi]),
                    Stmt::Let { lv: Lval::Var(Name::new("W%")), e: bin(Bin::Add, v("W%"), lit(1)), kw: false },
                    Stmt::Wend,
                    Stmt::Print(vec![]),
                ]
            }
            _ => vec![print_all(ALL_GLOBALS)],
        };
        lines.push(s);
    }
    match error_kind {
        "arity" => {
            let f = g.fns[g.t.below(g.fns.len())].clone();
            let mut args: Vec<E> = f.params.iter().map(|(_, ty)| if *ty == Ty::Str { E::Str("a".into()) } else { lit(1) }).collect();
            // one too many, or one too few (down to an empty list: FNA() is a wrong count too)
            if g.t.chance(1, 2) {
                args.push(lit(2));
            } else {
                args.pop();
            }
            lines.push(vec![Stmt::Print(vec![PItem::Expr(E::Fn(f.name, args))])]);
        }
        "undefined" => lines.push(vec![Stmt::Print(vec![PItem::Expr(E::Fn(Name::new("FNZ"), vec![lit(1)]))])]),
        "recursion" => {
            // the recursive call in every position: under an operator, as the whole body (nothing is
            // left to do after it returns), through a second function, with a string result
            let fnr = |a: E| E::Fn(Name::new("FNR"), vec![a]);
            let def = |name: &str, p: &str, body: E| Stmt::Def { name: Name::new(name), params: vec![Name::new(p)], body };
            match g.t.below(5) {
                0 => lines.push(vec![def("FNR", "X", bin(Bin::Add, fnr(v("X")), lit(1)))]),
                1 => lines.push(vec![def("FNR", "X", fnr(if g.t.chance(1, 2) { v("X") } else { E::Neg(Box::new(v("X"))) }))]),
                2 => lines.push(vec![def("FNR", "X", bin(Bin::Add, lit(1), fnr(v("X"))))]),
                3 => lines.push(vec![def("FNR", "X", E::Fn(Name::new("FNS"), vec![v("X")])), def("FNS", "X", fnr(v("X")))]),
                _ => lines.push(vec![def("FNR", "X", fnr(fnr(v("X"))))]),
            }
            lines.push(vec![Stmt::Print(vec![PItem::Expr(E::Fn(Name::new("FNR"), vec![lit(1)]))])]);
        }
        _ => {}
    }
    // the shadowed globals are untouched
    lines.push(vec![print_all(ALL_GLOBALS)]);
    lines.push(vec![Stmt::End]);
    let mut prog = Program::default();
    let mut n = *g.t.pick(&[1u16, 10, 100]);
    for s in lines {
        prog.lines.push(Line { num: n, stmts: s });
        n += *g.t.pick(&[1u16, 10, 10]);
    }
    (prog, g.nested, g.in_subscript_or_bound, error_kind)
}

fn check_functions(t: &mut Tape, ctx: &Ctx) -> Outcome {
    let (prog, nested, in_sub, error_kind) = build(t);
    let texts = prog.texts();
    let case0 = texts.join("\n");
    if texts.iter().any(|l| l.len() > 1000) {
        return Outcome::discard("line too long");
    }
    if let Err(e) = super::c01::printer_guard(&prog) {
        return Outcome::fail(&e.0, e.1, case0);
    }
    let directs: Vec<Vec<Stmt>> = vec![
        vec![Stmt::Run(None)],
        vec![print_all(ALL_GLOBALS)],
        // functions stay defined after the run; DEF itself is illegal in direct mode
        vec![Stmt::Print(vec![PItem::Expr(E::Fn(Name::new("FNA"), vec![lit(2)]))])],
        // a refused direct DEF of an existing name leaves the program's function in place
        vec![Stmt::Def { name: Name::new("FNA"), params: vec![Name::new("X")], body: bin(Bin::Mul, v("X"), lit(100)) }],
        vec![Stmt::Print(vec![PItem::Expr(E::Fn(Name::new("FNA"), vec![lit(2)]))])],
        vec![Stmt::Def { name: Name::new("FNQ"), params: vec![Name::new("X")], body: v("X") }],
        vec![Stmt::Print(vec![PItem::Expr(E::Fn(Name::new("FNQ"), vec![lit(1)]))])],
        vec![Stmt::Print(vec![PItem::Expr(lit(1))])],
    ];
    let refused_renum = t.chance(1, 3);
    let case = format!("{}\n{}{}", case0, directs.iter().map(|d| format!("> {}", render_stmts(d))).collect::<Vec<_>>().join("\n"), if refused_renum { "\n(RENUM 10,0,0 typed after the first of these lines)" } else { "" });
    crate::runner::note_case(&case);
    let mut m = Machine::new(&prog);
    let mut term = Term::new();
    let mut o = Opts::default();
    for l in &texts {
        term.enter_raw(l);
        term.run(&mut o);
    }
    if !term.take().is_empty() {
        return Outcome::fail("program-entry-printed", "typing the program printed something".into(), case);
    }
    for (i, d) in directs.iter().enumerate() {
        if i == 1 && refused_renum {
            // a RENUM that is refused changes nothing: the functions of the run are still there
            term.line("RENUM 10,0,0", &mut o);
            let got = flat(&term.take());
            if !got.starts_with('?') || term.listing_text() != texts {
                return Outcome::fail("function-transcript", format!("RENUM 10,0,0 (increment 0) answered {:?}; listing {:?}", got, term.listing_text()), case);
            }
        }
        // FNA may have string parameters: skip the direct call then
        if i == 2 || i == 4 {
            let ok = prog.lines.iter().any(|l| l.stmts.iter().any(|s| matches!(s, Stmt::Def { name, params, .. } if name.text() == "FNA" && params.len() == 1 && !params[0].text().ends_with('$'))));
            if !ok {
                continue;
            }
        }
        let h = m.direct_line(d);
        let want = std::mem::take(&mut m.out);
        if h == Halt::Budget {
            return Outcome::discard("model step budget exceeded");
        }
        if m.undefined.is_some() || m.flags.fuzzy_eq {
            return Outcome::discard("outside the well-defined fragment");
        }
        o.max_calls = m.steps * 40 + 4000;
        let text = render_stmts(d);
        term.line(&text, &mut o);
        let got = term.take();
        if let Some(p) = has_panic(&got) {
            return Outcome::fail("panic", p, case);
        }
        if !same_transcript(&want, &got) {
            return Outcome::fail("function-transcript", format!("after {:?}\n--- prescribed:\n{}\n--- implementation:\n{}", text, flat(&want), flat(&got)), case);
        }
    }
    let mut labels = vec![];
    if nested {
        labels.push("call nested in another call's argument");
    }
    if in_sub {
        labels.push("call in a subscript or loop bound");
    }
    if m.hits.fn_nested {
        labels.push("function body calls another function");
    }
    match error_kind {
        "arity" => labels.push("wrong argument count"),
        "before-def" => labels.push("call before the DEF executed"),
        "recursion" => labels.push("runaway recursion"),
        "undefined" => labels.push("undefined function"),
        _ => {}
    }
    let o2 = Outcome::pass(nested || in_sub || m.hits.fn_calls > 0, hash_str(&case)).with_labels(labels);
    if ctx.render {
        o2.with_case(case)
    } else {
        o2
    }
}

// ------------------------------------------------------------------ literal cases

const CASES: &[&str] = &[
    "10 DEF FNA()=1\n20 PRINT 5\nRUN\n=> ?SYNTAX ERROR IN 10:12; EXPECTED VARIABLE\\n",
    "DEF FNA(X)=X\nPRINT 1\n=> ?ILLEGAL DIRECT\\n 1 \\n",
    "10 DEF FNR(X)=FNR(X)+1\n20 PRINT FNR(1)\nRUN\nPRINT 1+1\n=> ?OUT OF MEMORY IN 10; STACK OVERFLOW\\n 2 \\n",
    "10 X=5:DEF FNA(X)=X*2\n20 PRINT FNA(3);X\nRUN\n=>  6  5 \\n",
    "10 DEF FNA(X)=X+Y\n20 Y=1:PRINT FNA(1);:Y=10:PRINT FNA(1)\nRUN\n=>  2  11 \\n",
    "10 DEF FN(X)=X*2\n20 DEF FNA(X,Y)=FN(X)/Y\n30 PRINT FNA(1,3)\nRUN\n=>  0.6666667 \\n",
    "10 DEF FNA(X)=X\n20 PRINT FNA(1,2)\nRUN\n=> ?ILLEGAL FUNCTION CALL IN 20; WRONG NUMBER OF ARGUMENTS\\n",
    "10 PRINT FNA(1)\n20 DEF FNA(X)=X\nRUN\n=> ?UNDEFINED USER FUNCTION IN 10\\n",
    "10 DEFSTR F:DEF FNA(X,F)=X+LEN(F)\n20 PRINT FNA(1.5,\"ab\")\nRUN\n=>  3.5 \\n",
    "10 DEF FNA%(X%)=X%+1:DEF FNB$(S$,N)=LEFT$(S$,N)\n20 PRINT FNA%(1.9);FNB$(\"HELLO\",2.9)\nRUN\n=>  2 HE\\n",
];

fn gen_cases(part: usize, parts: usize, _th: bool, emit: &mut dyn FnMut(&str)) {
    for (i, s) in CASES.iter().enumerate() {
        if i % parts == part {
            emit(s);
        }
    }
}

fn check_case(item: &str, _ctx: &Ctx) -> Outcome {
    let (prog, want) = match item.rsplit_once("\n=> ") {
        Some((p, w)) => (p, w.replace("\\n", "\n")),
        None => return Outcome::discard("no expectation"),
    };
    let mut term = Term::new();
    let mut o = Opts::default();
    o.max_calls = 200_000;
    for l in prog.split('\n') {
        term.line(l, &mut o);
    }
    let evs = term.take();
    if let Some(m) = has_panic(&evs) {
        return Outcome::fail("panic", m, item.to_string());
    }
    let got = flat(&evs);
    if got != want {
        return Outcome::fail("function-case", format!("got {:?}\nwant {:?}", got, want), item.to_string());
    }
    Outcome::pass(true, hash_str(item)).with_case(item.to_string())
}

pub fn property() -> Property {
    Property {
        id: "C10",
        rule: "Cases: proptest-generated programs defining 1-6 functions (typed names FNA FNB% FNC# FND$ FNE!, also names that differ in the type character only such as FNA and FNA$, 1-4 parameters of every type whose names shadow program variables, bodies over parameters, globals and earlier functions up to depth 6, a later DEF replacing an earlier one, possibly with another number of parameters), DEFtype in effect for the letters of parameters and for the letter F; \
calls inside PRINT lists, array subscripts, FOR bounds, IF conditions, other calls' arguments, WHILE loops; a global changed between two identical calls (evaluation at call time); the shadowed globals printed afterwards; error endings: wrong argument count, call before the DEF executed, undefined function, runaway recursion, DEF in direct mode (of a new name and of a name the program defines; the program's function must survive it), followed by more direct statements. \
Oracle: reference interpreter (call by value, each argument converted like an assignment to its parameter's own type, locals shadow, everything else read at call time); whole transcripts compared. Literal cases pin the documented error codes and the zero-parameter diagnostic. \
Non-trivial: a call nested in another call's argument, in a subscript or in a loop bound, or any executed call with shadowing parameters. Distinct by program text.",
        assumptions: vec!["bodies are wrapped in CINT/CSNG/CDBL so that the natural result type equals the type of the function name (result conversion is not documented)", "errors inside a function body may be attributed to the calling line or to the DEF line"],
        subs: vec![Sub::items("function_cases", gen_cases, check_case, false), Sub::tape("function_programs", check_functions, 40_000, 1_500_000, 700)],
    }
}
