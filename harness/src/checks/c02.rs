//! C02 — expressions evaluate per documented precedence, promotion and result types; assignment
//! converts or raises OVERFLOW / TYPE MISMATCH.
//! Oracle: sem::eval on the harness's own tree (value AND type, or the BASIC error), observed
//! through PRINT, two type probes and four typed stores.

use crate::drive::{flat, has_panic, Opts, Term};
use crate::expr::*;
use crate::runner::{Ctx, Outcome, Property, Sub};
use crate::sem::*;
use crate::tape::{hash_str, Tape};

const LITERALS: &[&str] = &[
    "0", "1", "2", "3", "7", "10", "12", "100", "255", "256", "32767", "32768", "65535", "16777216", "16777217", "1.5", ".5", "2.", "0.1", "0.25", "3.75", "1.2345678",
    "123456789", "1E5", "1D5", "1E-3", "2.5E+3", "1D-2", "7%", "7!", "7#", "0.1#", "1.1!", "&H1F", "&17", "&H7FFF", "&0", "12345.678", "99999", "1E38", "1E-38", "1D300",
    "32766", "181", "182", "1e2", "1d2", "&h10",
];

fn boundary(ty: Ty, t: &mut Tape) -> Val {
    match ty {
        Ty::Int => Val::Int(*t.pick(&[0i16, 1, -1, 2, -2, 3, 7, 10, 100, 181, 182, 255, 256, 32767, -32767, -32768, 16384, -16384, 12345])),
        Ty::Sng => Val::Sng(*t.pick(&[
            0.0f32, 1.0, -1.0, 0.5, -0.5, 2.0, 1.5, -2.5, 3.0, 10.0, 0.1, 100.25, 32767.0, 32768.0, -32768.0, -32769.0, 32767.5, 16777216.0, 1e10, -1e10, 3.4e38, 1e-38, 1e-45, 65536.0,
            -0.0, 255.9,
        ])),
        Ty::Dbl => Val::Dbl(*t.pick(&[
            0.0f64, 1.0, -1.0, 0.5, 2.0, -2.5, 3.0, 0.1, 1.0 / 3.0, 32767.0, 32768.0, -32768.0, -32768.5, 32767.999, 16777217.0, 9007199254740993.0, 1e100, -1e100, 1.7e308, 5e-324, 65536.0, 1e-10,
        ])),
        Ty::Str => Val::Str(t.pick(&["", "A", "B", "AB", "a", "é", "10", "Z9"]).to_string()),
    }
}

struct Gen {
    vars: Vec<(Name, Val)>,
}

const VARNAMES: &[(&str, Ty)] = &[("A%", Ty::Int), ("B%", Ty::Int), ("C!", Ty::Sng), ("D!", Ty::Sng), ("E#", Ty::Dbl), ("F#", Ty::Dbl), ("G", Ty::Sng), ("H$", Ty::Str), ("I$", Ty::Str)];

fn leaf(t: &mut Tape, g: &Gen, want_str: bool) -> E {
    if want_str {
        return match t.below(3) {
            0 => E::Str(t.pick(&["", "A", "AB", "é", "b"]).to_string()),
            _ => {
                let cands: Vec<&(Name, Val)> = g.vars.iter().filter(|(_, v)| !v.is_num()).collect();
                if cands.is_empty() {
                    E::Str("S".into())
                } else {
                    E::Var(cands[t.below(cands.len())].0.clone())
                }
            }
        };
    }
    if t.chance(1, 2) {
        E::Lit(t.pick(LITERALS).to_string())
    } else {
        let cands: Vec<&(Name, Val)> = g.vars.iter().filter(|(_, v)| v.is_num()).collect();
        E::Var(cands[t.below(cands.len())].0.clone())
    }
}

const NUMFUNCS: &[&str] = &["ABS", "SGN", "INT", "FIX", "CINT", "CSNG", "CDBL", "SQR", "EXP", "LOG", "SIN", "COS", "TAN", "ATN"];

fn gen(t: &mut Tape, g: &Gen, depth: usize, want_str: bool) -> E {
    if depth == 0 || t.chance(1, 5) {
        return leaf(t, g, want_str);
    }
    if want_str {
        return match t.below(3) {
            0 => E::Bin(Bin::Add, Box::new(gen(t, g, depth - 1, true)), Box::new(gen(t, g, depth - 1, true))),
            _ => leaf(t, g, true),
        };
    }
    let e = match t.weighted(&[12, 2, 2, 3, 1, 1]) {
        0 => {
            let op = *t.pick(&Bin::ALL);
            let rel = matches!(op, Bin::Eq | Bin::Ne | Bin::Lt | Bin::Le | Bin::Gt | Bin::Ge);
            // relational operators also compare strings; a rare ill-typed mix tests TYPE MISMATCH
            let strs = rel && t.chance(1, 6);
            let mixed = t.chance(1, 40);
            let l = gen(t, g, depth - 1, strs);
            let r = gen(t, g, depth - 1, strs != mixed);
            E::Bin(op, Box::new(l), Box::new(r))
        }
        1 => E::Neg(Box::new(gen(t, g, depth - 1, false))),
        2 => E::Not(Box::new(gen(t, g, depth - 1, false))),
        3 => E::Call(*t.pick(NUMFUNCS), vec![gen(t, g, depth - 1, false)]),
        4 => E::Call("LEN", vec![gen(t, g, depth - 1, true)]),
        _ => leaf(t, g, false),
    };
    if t.chance(1, 8) {
        E::Paren(Box::new(e))
    } else {
        e
    }
}

fn add_parens(t: &mut Tape, e: &E) -> E {
    let inner = match e {
        E::Neg(x) => E::Neg(Box::new(add_parens(t, x))),
        E::Not(x) => E::Not(Box::new(add_parens(t, x))),
        E::Bin(op, l, r) => E::Bin(*op, Box::new(add_parens(t, l)), Box::new(add_parens(t, r))),
        E::Call(f, a) => E::Call(f, a.iter().map(|x| add_parens(t, x)).collect()),
        E::Paren(x) => E::Paren(Box::new(add_parens(t, x))),
        other => other.clone(),
    };
    if t.chance(1, 3) {
        E::Paren(Box::new(inner))
    } else {
        inner
    }
}

pub fn fault_text(f: &Fault) -> String {
    match f {
        Fault::Code(c) => format!("{}\n", c.text()),
        Fault::Any => "?<any BASIC error>\n".into(),
    }
}

pub fn matches_fault(got: &str, f: &Fault) -> bool {
    match f {
        Fault::Code(c) => got == format!("{}\n", c.text()) || got.starts_with(&format!("{};", c.text())),
        Fault::Any => got.starts_with('?') && got.ends_with('\n') && got.matches('\n').count() == 1,
    }
}

/// Does the printed text of a number agree with the model value (exactly, or within 2 ulp of
/// the typed value when the result went through a transcendental / float power)?
pub fn printed_matches(got: &str, want: &Val, approx: bool) -> bool {
    if !approx {
        return got == format!("{}\n", fmt_num(want));
    }
    let body = got.trim();
    match want {
        Val::Sng(x) => match parse_printed_f64(body) {
            Some(g) => ulps32(g as f32, *x) <= 2,
            None => false,
        },
        Val::Dbl(x) => match parse_printed_f64(body) {
            Some(g) => ulps64(g, *x) <= 2,
            None => false,
        },
        _ => got == format!("{}\n", fmt_num(want)),
    }
}

pub fn parse_printed_f64(s: &str) -> Option<f64> {
    let s = s.trim();
    match s {
        "inf" => Some(f64::INFINITY),
        "-inf" => Some(f64::NEG_INFINITY),
        "NaN" => Some(f64::NAN),
        _ => s.parse::<f64>().ok(),
    }
}

fn run_line(term: &mut Term, line: &str) -> String {
    let mut o = Opts::default();
    term.line(line, &mut o);
    flat(&term.take())
}

fn setup_line(vars: &[(Name, Val)]) -> String {
    vars.iter().map(|(n, v)| format!("{}={}", n.text(), src_of(v))).collect::<Vec<_>>().join(":")
}

/// Evaluate one tree all the ways; Err((clause, detail)).
fn check_tree(vars: &[(Name, Val)], e: &E, alt: Option<&E>) -> Result<(bool, Vec<&'static str>), (String, String)> {
    let mut env = FlatEnv::new();
    env.vars = vars.iter().map(|(n, v)| (n.clone(), stored(v))).collect();
    let mut fl = Flags::default();
    let want = eval(e, &mut env, &mut fl);
    if fl.fuzzy_eq {
        return Ok((false, vec!["discarded: float = / <> inside the undocumented tolerance, or NaN/inf comparison"]));
    }
    let src = render(e);
    if src.len() > 900 {
        return Ok((false, vec!["discarded: rendered line too long"]));
    }
    let mut term = Term::new();
    let s = run_line(&mut term, &setup_line(vars));
    if !s.is_empty() {
        return Err(("setup".into(), format!("setup line printed {:?}", s)));
    }
    let mut labels: Vec<&'static str> = vec![];
    let ctx = |what: &str, got: &str, want: &str| format!("{}\n  got  {:?}\n  want {:?}\n  expression: {}\n  variables: {}", what, got, want, src, setup_line(vars));
    // 1. value
    let got = run_line(&mut term, &format!("PRINT {}", src));
    if let Some(m) = has_panic(&term.log) {
        return Err(("panic".into(), m));
    }
    match &want {
        Ok(v) => {
            if !printed_matches(&got, v, fl.approx) {
                return Err(("value".into(), ctx("PRINT of the expression", &got, &format!("{}\n", fmt_num(v)))));
            }
        }
        Err(f) => {
            if !matches_fault(&got, f) {
                return Err(("error-code".into(), ctx("PRINT of the expression", &got, &fault_text(f))));
            }
            labels.push("expression raises a BASIC error");
        }
    }
    // 1b. the same expression compiled as part of a stored program (typed variables survive RUN
    // only when re-assigned, so the line carries the setup)
    {
        let l10 = format!("10 {}:PRINT {}", setup_line(vars), src);
        if l10.len() <= 900 {
            let mut t2 = Term::new();
            let _ = run_line(&mut t2, &l10);
            let got_p = run_line(&mut t2, "RUN");
            let ok = match &want {
                Ok(v) => printed_matches(&got_p, v, fl.approx),
                Err(f) => matches_fault(&got_p.replace(" IN 10", ""), f),
            };
            if !ok {
                return Err(("value-in-a-program-line".into(), ctx(&format!("{} / RUN", l10), &got_p, &got)));
            }
        }
    }
    // 1c. the expression as the predicate of an IF: false is 0, everything else is true
    if src.len() <= 800 {
        let got_if = run_line(&mut term, &format!("IF {} THEN PRINT \"T\" ELSE PRINT \"F\"", src));
        let ok = match &want {
            Ok(Val::Str(_)) => got_if.starts_with("?TYPE MISMATCH"),
            Ok(v) => {
                let zero = match v {
                    Val::Int(n) => *n == 0,
                    Val::Sng(x) => *x == 0.0,
                    Val::Dbl(x) => *x == 0.0,
                    Val::Str(_) => false,
                };
                got_if == if zero { "F\n" } else { "T\n" }
            }
            Err(f) => matches_fault(&got_if, f),
        };
        if !ok {
            return Err(("predicate".into(), ctx(&format!("IF {} THEN PRINT \"T\" ELSE PRINT \"F\"", src), &got_if, &got)));
        }
    }
    // 2. any legal parenthesisation prints the same
    if let Some(a) = alt {
        let asrc = render(a);
        if asrc.len() <= 900 {
            let got2 = run_line(&mut term, &format!("PRINT {}", asrc));
            if got2 != got {
                return Err(("parenthesisation".into(), ctx(&format!("redundant parentheses changed the result: {}", asrc), &got2, &got)));
            }
        }
    }
    if let Ok(v) = &want {
        // 3. result type
        let finite = match v {
            Val::Sng(x) => x.is_finite(),
            Val::Dbl(x) => x.is_finite(),
            _ => true,
        };
        if v.is_num() && finite {
            let p1 = run_line(&mut term, &format!("PRINT ({})*0+.1", src));
            let w1 = if v.ty() == Ty::Dbl { format!("{}\n", fmt_num(&Val::Dbl(0.1f32 as f64))) } else { " 0.1 \n".to_string() };
            if p1 != w1 {
                return Err(("result-type".into(), ctx(&format!("type probe (e)*0+.1 for a {:?} result", v.ty()), &p1, &w1)));
            }
            let p2 = run_line(&mut term, &format!("PRINT ({})*0+32767+1", src));
            let w2 = if v.ty() == Ty::Int { "?OVERFLOW\n" } else { " 32768 \n" };
            if p2 != w2 {
                return Err(("result-type".into(), ctx(&format!("type probe (e)*0+32767+1 for a {:?} result", v.ty()), &p2, w2)));
            }
        }
        if !v.is_num() {
            let p = run_line(&mut term, &format!("PRINT LEN({})", src));
            let w = format!("{}\n", fmt_num(&Val::Int(if let Val::Str(s) = v { s.chars().count() as i16 } else { 0 })));
            if p != w {
                return Err(("result-type".into(), ctx("LEN of a string result", &p, &w)));
            }
        }
        // 4. assignment converts to the target's type or raises OVERFLOW / TYPE MISMATCH
        for (target, ty) in [("T%", Ty::Int), ("T!", Ty::Sng), ("T#", Ty::Dbl), ("T$", Ty::Str), ("T", Ty::Sng)] {
            // a variable holding zero is not stored at all, so a negative zero reads back as 0
            let conv = convert(ty, v).map(|x| stored(&x));
            let line = format!("{}={}:PRINT {}", target, src, target);
            let got = run_line(&mut term, &line);
            match &conv {
                Ok(cv) => {
                    if !printed_matches(&got, cv, fl.approx) {
                        return Err(("assignment".into(), ctx(&format!("{} (value {:?} stored in a {:?} variable)", line, v, ty), &got, &format!("{}\n", fmt_num(cv)))));
                    }
                    // the variable holds a value of its own type
                    let finite = match cv {
                        Val::Sng(x) => x.is_finite(),
                        Val::Dbl(x) => x.is_finite(),
                        _ => true,
                    };
                    if cv.is_num() && finite {
                        let p1 = run_line(&mut term, &format!("PRINT {}*0+.1;{}*0+32767+1", target, target));
                        let w1 = match ty {
                            Ty::Dbl => format!("{} 32768 \n", fmt_num(&Val::Dbl(0.1f32 as f64))),
                            Ty::Int => " 0.1 \n?OVERFLOW\n".to_string(),
                            _ => " 0.1  32768 \n".to_string(),
                        };
                        if p1 != w1 {
                            return Err(("assignment-type".into(), ctx(&format!("type probes on {} after {}", target, line), &p1, &w1)));
                        }
                    }
                }
                Err(code) => {
                    if !matches_fault(&got, &Fault::Code(*code)) {
                        return Err(("assignment".into(), ctx(&format!("{} (value {:?} stored in a {:?} variable)", line, v, ty), &got, &format!("{}\n", code.text()))));
                    }
                    // and the variable is unchanged (never a value of another type)
                    let after = run_line(&mut term, &format!("PRINT {}", target));
                    let before = format!("{}\n", fmt_num(&Val::default_of(ty)));
                    let prev_ok = after == before || term_prev_value_ok(&after);
                    if !prev_ok {
                        return Err(("assignment".into(), ctx(&format!("after the failed {}, PRINT {}", line, target), &after, &before)));
                    }
                }
            }
            // reset the target so that the next probe starts from the default
            let _ = run_line(&mut term, &format!("{}={}", target, if ty == Ty::Str { "\"\"" } else { "0" }));
        }
    }
    // 5. undecorated targets take their type from DEFtype at run time
    if let Ok(v) = &want {
        for (prefix, target, ty) in [("DEFDBL Q", "Q7", Ty::Dbl), ("DEFINT J", "J7", Ty::Int), ("DEFSTR U", "U7", Ty::Str)] {
            let conv = convert(ty, v).map(|x| stored(&x));
            let line = format!("{}={}:PRINT {}", target, src, target);
            if line.len() > 900 {
                continue;
            }
            // DEFtype first (it may drop variables), then the operands, then the store
            let mut t3 = Term::new();
            let _ = run_line(&mut t3, prefix);
            let _ = run_line(&mut t3, &setup_line(vars));
            let got = run_line(&mut t3, &line);
            let line = format!("{} / {} / {}", prefix, setup_line(vars), line);
            let ok = match &conv {
                Ok(cv) => printed_matches(&got, cv, fl.approx),
                Err(code) => matches_fault(&got, &Fault::Code(*code)),
            };
            if !ok {
                return Err(("assignment".into(), ctx(&format!("{} (value {:?} stored in an undecorated variable typed {:?} by DEFtype)", line, v, ty), &got, &format!("{:?}", conv.as_ref().map(|c| fmt_num(c))))));
            }
        }
    }
    let mut ops = vec![];
    ops_used(e, &mut ops);
    ops.sort();
    ops.dedup();
    let mut kinds = std::collections::BTreeSet::new();
    collect_types(e, vars, &mut kinds);
    if fl.approx {
        labels.push("result compared within 2 ulp (transcendental / float power)");
    }
    if ops.len() >= 2 {
        labels.push(">= 2 operators of different precedence levels");
    }
    if kinds.len() >= 2 {
        labels.push("mixed operand types");
    }
    Ok((ops.len() >= 2 || kinds.len() >= 2, labels))
}

fn term_prev_value_ok(_after: &str) -> bool {
    false
}

fn collect_types(e: &E, vars: &[(Name, Val)], out: &mut std::collections::BTreeSet<Ty>) {
    match e {
        E::Lit(s) => {
            if let Some(v) = literal(s) {
                out.insert(v.ty());
            }
        }
        E::Str(_) => {
            out.insert(Ty::Str);
        }
        E::Var(n) => {
            for (k, v) in vars {
                if k == n {
                    out.insert(v.ty());
                }
            }
        }
        E::Neg(x) | E::Not(x) | E::Paren(x) => collect_types(x, vars, out),
        E::Bin(_, l, r) => {
            collect_types(l, vars, out);
            collect_types(r, vars, out);
        }
        E::Call(_, a) | E::Fn(_, a) | E::Elem(_, a) => {
            for x in a {
                collect_types(x, vars, out)
            }
        }
    }
}

fn mild(ty: Ty, t: &mut Tape) -> Val {
    match ty {
        Ty::Int => Val::Int(t.range(-12, 12) as i16),
        Ty::Sng => Val::Sng(t.range(-40, 40) as f32 / 4.0),
        Ty::Dbl => Val::Dbl(t.range(-40, 40) as f64 / 8.0),
        Ty::Str => Val::Str(t.pick(&["", "A", "B", "AB"]).to_string()),
    }
}

fn gen_vars(t: &mut Tape) -> Vec<(Name, Val)> {
    // half of the cases use small exact values so that deep trees evaluate without errors
    let calm = t.chance(1, 2);
    VARNAMES.iter().map(|(n, ty)| (Name::new(n), if calm { mild(*ty, t) } else { boundary(*ty, t) })).collect()
}

fn check_random_tree(t: &mut Tape, ctx: &Ctx) -> Outcome {
    let vars = gen_vars(t);
    let g = Gen { vars: vars.clone() };
    let depth = 1 + t.below(6);
    let want_str = t.chance(1, 12);
    let e = gen(t, &g, depth, want_str);
    let alt = add_parens(t, &e);
    let case = format!("{}\nPRINT {}\n(also: PRINT {})", setup_line(&vars), render(&e), render(&alt));
    match check_tree(&vars, &e, Some(&alt)) {
        Ok((nt, labels)) => {
            if labels.iter().any(|l| l.starts_with("discarded")) {
                return Outcome::discard("fuzzy equality zone or over-long line");
            }
            let o = Outcome::pass(nt, hash_str(&case)).with_labels(labels);
            if ctx.render {
                o.with_case(case)
            } else {
                o
            }
        }
        Err((c, d)) => Outcome::fail(&c, d, case),
    }
}

// ------------------------------------------------------------------ flat (unparenthesised) operator sequences

#[derive(Clone, Debug)]
enum FT {
    Atom(E, String),
    Un(&'static str),
    Bi(Bin, &'static str),
}

const FLAT_BINOPS: &[(Bin, &str)] = &[
    (Bin::Pow, "^"), (Bin::Mul, "*"), (Bin::Div, "/"), (Bin::IDiv, "\\"), (Bin::Mod, " MOD "), (Bin::Add, "+"), (Bin::Sub, "-"), (Bin::Eq, "="), (Bin::Ne, "<>"), (Bin::Lt, "<"),
    (Bin::Le, "<="), (Bin::Gt, ">"), (Bin::Ge, ">="), (Bin::And, " AND "), (Bin::Or, " OR "), (Bin::Xor, " XOR "), (Bin::Imp, " IMP "), (Bin::Eqv, " EQV "),
];

/// Reference parser for a flat token sequence: precedence climbing over the manual's table; a
/// unary operator takes as its operand everything that binds at least as tightly as itself
/// (12 for + and -, 6 for NOT), wherever it stands.
fn flat_parse(toks: &[FT], pos: &mut usize, min_prec: u8) -> Option<E> {
    let mut lhs = match toks.get(*pos)? {
        FT::Un(u) => {
            *pos += 1;
            let level = if *u == "NOT" { 6 } else { 12 };
            let operand = flat_parse(toks, pos, level)?;
            match *u {
                "-" => E::Neg(Box::new(operand)),
                "NOT" => E::Not(Box::new(operand)),
                _ => E::Paren(Box::new(operand)),
            }
        }
        FT::Atom(e, _) => {
            *pos += 1;
            e.clone()
        }
        FT::Bi(..) => return None,
    };
    while let Some(FT::Bi(op, _)) = toks.get(*pos) {
        let p = op.prec();
        if p < min_prec {
            break;
        }
        *pos += 1;
        let rhs = flat_parse(toks, pos, p + 1)?;
        lhs = E::Bin(*op, Box::new(lhs), Box::new(rhs));
    }
    Some(lhs)
}

fn check_flat(t: &mut Tape, ctx: &Ctx) -> Outcome {
    let vars: Vec<(Name, Val)> = vec![
        (Name::new("A%"), Val::Int(t.range(-4, 6) as i16)),
        (Name::new("B%"), Val::Int(t.range(0, 3) as i16)),
        (Name::new("C!"), Val::Sng(t.range(-8, 8) as f32 / 2.0)),
        (Name::new("E#"), Val::Dbl(t.range(-8, 8) as f64 / 4.0)),
    ];
    let n = 2 + t.below(5);
    let mut toks: Vec<FT> = vec![];
    let mut unary_after_binop = false;
    for i in 0..n {
        if i > 0 {
            let (b, s) = *t.pick(FLAT_BINOPS);
            toks.push(FT::Bi(b, s));
        }
        let nu = *t.pick(&[0usize, 0, 0, 1, 1, 2]);
        for _ in 0..nu {
            toks.push(FT::Un(*t.pick(&["-", "-", "NOT", "+"])));
            if i > 0 {
                unary_after_binop = true;
            }
        }
        let atom = if t.chance(1, 2) {
            let l = t.pick(&["0", "1", "2", "3", "2", "3", "4", "5", "7", "2.5", "0.5", "1.5#", "10", "9"]).to_string();
            FT::Atom(E::Lit(l.clone()), l)
        } else {
            let (nm, _) = &vars[t.below(vars.len())];
            FT::Atom(E::Var(nm.clone()), nm.text().to_string())
        };
        toks.push(atom);
    }
    // the flat source text: word operators carry their own blanks; a blank keeps two signs apart
    let mut src = String::new();
    for tk in &toks {
        match tk {
            FT::Atom(_, s) => src.push_str(s),
            FT::Bi(_, s) => src.push_str(s),
            FT::Un(u) => {
                if *u == "NOT" {
                    src.push_str("NOT ");
                } else {
                    if src.ends_with('-') || src.ends_with('+') {
                        src.push(' ');
                    }
                    src.push_str(u);
                }
            }
        }
    }
    let mut pos = 0;
    let tree = match flat_parse(&toks, &mut pos, 0) {
        Some(e) if pos == toks.len() => e,
        _ => return Outcome::fail("harness", format!("the reference parser did not consume {:?}", src), src),
    };
    let mut env = FlatEnv::new();
    env.vars = vars.iter().map(|(n, v)| (n.clone(), stored(v))).collect();
    let mut fl = Flags::default();
    let want = eval(&tree, &mut env, &mut fl);
    if fl.fuzzy_eq {
        return Outcome::discard("float = / <> inside the undocumented tolerance");
    }
    let case = format!("{}\nPRINT {}\n(reference grouping: {})", setup_line(&vars), src, render(&tree));
    let mut term = Term::new();
    let s0 = run_line(&mut term, &setup_line(&vars));
    if !s0.is_empty() {
        return Outcome::fail("setup", format!("setup line printed {:?}", s0), case);
    }
    let got = run_line(&mut term, &format!("PRINT {}", src));
    if let Some(m) = has_panic(&term.log) {
        return Outcome::fail("panic", m, case);
    }
    match &want {
        Ok(v) => {
            if !printed_matches(&got, v, fl.approx) {
                return Outcome::fail("flat-precedence", format!("printed {:?}, the documented grouping {} gives {:?}", got, render(&tree), fmt_num(v)), case);
            }
        }
        Err(f) => {
            if !matches_fault(&got, f) {
                return Outcome::fail("flat-precedence", format!("printed {:?}, the documented grouping {} raises {}", got, render(&tree), fault_text(f)), case);
            }
        }
    }
    let mut labels = vec![];
    if unary_after_binop {
        labels.push("a unary operator directly behind a binary operator");
    }
    if want.is_err() {
        labels.push("expression raises a BASIC error");
    }
    let o = Outcome::pass(unary_after_binop || n >= 3, hash_str(&case)).with_labels(labels);
    if ctx.render {
        o.with_case(case)
    } else {
        o
    }
}

// ------------------------------------------------------------------ relational operators under operand swap

/// x > y is the same predicate as y < x (and so on), whatever the values are: also for NaN and
/// infinities, whose ordering the manual leaves open.
fn check_rel_symmetry(t: &mut Tape, ctx: &Ctx) -> Outcome {
    let pick = |t: &mut Tape| -> String {
        match t.below(6) {
            0 => t.pick(&["(1E38!*10-1E38!*10)", "(1D308*10-1D308*10)", "(1E38!*10)", "(-1E38!*10)", "(1D308*10)"]).to_string(),
            1 => src_of(&boundary(Ty::Int, t)),
            2 => src_of(&boundary(Ty::Sng, t)),
            3 => src_of(&boundary(Ty::Dbl, t)),
            4 => format!("\"{}\"", t.pick(&["", "A", "B", "AB", "a", "é"])),
            _ => format!("{}", t.range(-3, 3)),
        }
    };
    // close neighbours of one small number, in every type: whatever `=` makes of values that
    // differ in the last place, it makes the same of them in either order
    let near = |t: &mut Tape, n: i64| -> String {
        let x32 = n as f32;
        let x64 = n as f64;
        let k = 1 + t.below(3) as u32;
        let s = match t.below(9) {
            0 => format!("{}", n),
            1 => format!("{}!", n),
            2 => format!("{}#", n),
            3 => format!("{:E}!", f32::from_bits(if x32 == 0.0 { k } else { x32.to_bits() + k })),
            4 => format!("{:E}!", if x32 == 0.0 { -f32::from_bits(k) } else { f32::from_bits(x32.to_bits() - k) }),
            5 => format!("{:E}#", f64::from_bits(if x64 == 0.0 { k as u64 } else { x64.to_bits() + k as u64 })),
            6 => format!("{:E}#", if x64 == 0.0 { -f64::from_bits(k as u64) } else { f64::from_bits(x64.to_bits() - k as u64) }),
            7 => format!("({}+1E-8)", n),
            _ => format!("({}-1D-12)", n),
        };
        if s.starts_with('-') {
            format!("({})", s)
        } else {
            s
        }
    };
    let (a, b) = if t.chance(1, 3) {
        let n = *t.pick(&[0i64, 1, -1, 2, -2, 3, 10, 100, 32767, -32768]);
        (near(t, n), near(t, n))
    } else {
        (pick(t), pick(t))
    };
    let mut term = Term::new();
    let mut out = vec![];
    for (l, r) in [(">", "<"), (">=", "<="), ("<", ">"), ("<=", ">="), ("=", "="), ("<>", "<>")] {
        let x = run_line(&mut term, &format!("PRINT {}{}{}", a, l, b));
        let y = run_line(&mut term, &format!("PRINT {}{}{}", b, r, a));
        if let Some(m) = has_panic(&term.log) {
            return Outcome::fail("panic", m, format!("{} {} {}", a, l, b));
        }
        if x != y {
            return Outcome::fail("relational-asymmetry", format!("PRINT {}{}{} gives {:?} but PRINT {}{}{} gives {:?}", a, l, b, x, b, r, a, y), format!("{} {} {}", a, l, b));
        }
        if !(x == " 0 \n" || x == "-1 \n" || x.starts_with('?')) {
            return Outcome::fail("relational-not-0-or-minus-1", format!("PRINT {}{}{} gives {:?}", a, l, b, x), format!("{} {} {}", a, l, b));
        }
        out.push(x);
    }
    // `<>` is the negation of `=`
    if !out[4].starts_with('?') && !out[5].starts_with('?') && out[4] == out[5] {
        return Outcome::fail("equal-and-not-equal-agree", format!("PRINT {}={} and PRINT {}<>{} both give {:?}", a, b, a, b, out[4]), format!("{} = {}", a, b));
    }
    let case = format!("{} ? {} -> {:?}", a, b, out);
    let nan = a.contains("*10") || b.contains("*10");
    let o = Outcome::pass(true, hash_str(&case)).with_labels(if nan { vec!["NaN or infinity operand"] } else { vec![] });
    if ctx.render {
        o.with_case(case)
    } else {
        o
    }
}

// ------------------------------------------------------------------ operator x type-pair x boundary matrix

fn matrix_values() -> Vec<Val> {
    let mut v: Vec<Val> = vec![];
    for n in [0i16, 1, -1, 2, 3, -7, 255, 32767, -32768] {
        v.push(Val::Int(n));
    }
    for x in [0.0f32, 1.0, -1.5, 2.5, 0.1, 32767.5, -32768.5, 16777216.0, 1e20, 3.0] {
        v.push(Val::Sng(x));
    }
    for x in [0.0f64, 1.0, -1.5, 2.5, 0.1, 32767.5, -32769.0, 9007199254740993.0, 1e200, 3.0] {
        v.push(Val::Dbl(x));
    }
    v.push(Val::Str("".into()));
    v.push(Val::Str("A".into()));
    v.push(Val::Str("é".into()));
    v
}

fn gen_matrix(part: usize, parts: usize, _th: bool, emit: &mut dyn FnMut(&str)) {
    let n = matrix_values().len();
    let mut idx = 0;
    for op in 0..Bin::ALL.len() {
        for a in 0..n {
            for b in 0..n {
                if idx % parts == part {
                    emit(&format!("{} {} {}", op, a, b));
                }
                idx += 1;
            }
        }
    }
}

fn check_matrix(item: &str, ctx: &Ctx) -> Outcome {
    let p: Vec<usize> = item.split_whitespace().filter_map(|x| x.parse().ok()).collect();
    if p.len() != 3 {
        return Outcome::discard("bad item");
    }
    let vals = matrix_values();
    let op = Bin::ALL[p[0]];
    let (a, b) = (&vals[p[1]], &vals[p[2]]);
    let name = |v: &Val, k: usize| match v.ty() {
        Ty::Int => Name::new(if k == 0 { "A%" } else { "B%" }),
        Ty::Sng => Name::new(if k == 0 { "C!" } else { "D!" }),
        Ty::Dbl => Name::new(if k == 0 { "E#" } else { "F#" }),
        Ty::Str => Name::new(if k == 0 { "H$" } else { "I$" }),
    };
    let vars = vec![(name(a, 0), a.clone()), (name(b, 1), b.clone())];
    let e = E::Bin(op, Box::new(E::Var(vars[0].0.clone())), Box::new(E::Var(vars[1].0.clone())));
    let case = format!("{}\nPRINT {}", setup_line(&vars), render(&e));
    match check_tree(&vars, &e, None) {
        Ok((_, labels)) => {
            if labels.iter().any(|l| l.starts_with("discarded")) {
                return Outcome::discard("fuzzy equality zone");
            }
            let o = Outcome::pass(true, hash_str(item)).with_labels(labels);
            if ctx.render {
                o.with_case(case)
            } else {
                o
            }
        }
        Err((c, d)) => Outcome::fail(&c, d, case),
    }
}


// ------------------------------------------------------------------ function x special value table

fn table_values() -> Vec<Val> {
    let mut v: Vec<Val> = vec![];
    for n in [0i16, 1, -1, 2, 255, 32767, -32767, -32768] {
        v.push(Val::Int(n));
    }
    for x in [0.0f32, 0.5, -0.5, 1.5, 2.5, -2.5, 0.25, 32767.5, -32768.5, 32767.49, -32768.49, 32766.5, 16777216.0, 1e-45, 3.4e38, 2.9999998, -1e-30, 88.0, -104.0] {
        v.push(Val::Sng(x));
    }
    for x in [0.0f64, 0.5, -1.5, 2.5, 32767.5, -32768.5, 32767.4999, 32767.9999, -32768.0001, -32768.4999, 2.9999999999, -0.9999999999, 1e-320, 1.7e308, 9007199254740993.0, 709.0, -745.0] {
        v.push(Val::Dbl(x));
    }
    v
}

const TABLE_FUNCS: usize = 16;
const TABLE_FORMS: usize = 5;

fn gen_table(part: usize, parts: usize, _th: bool, emit: &mut dyn FnMut(&str)) {
    let n = table_values().len();
    let mut idx = 0;
    for f in 0..TABLE_FUNCS {
        for a in 0..n {
            for form in 0..TABLE_FORMS {
                if idx % parts == part {
                    emit(&format!("{} {} {}", f, a, form));
                }
                idx += 1;
            }
        }
    }
}

/// Every numeric function (and the two unary operators) applied to the special values of each
/// type, reached through a variable, its negation and products that give a zero with a sign.
fn check_table(item: &str, ctx: &Ctx) -> Outcome {
    let p: Vec<usize> = item.split_whitespace().filter_map(|x| x.parse().ok()).collect();
    let vals = table_values();
    if p.len() != 3 || p[0] >= TABLE_FUNCS || p[1] >= vals.len() || p[2] >= TABLE_FORMS {
        return Outcome::discard("bad item");
    }
    let a = &vals[p[1]];
    let name = match a.ty() {
        Ty::Int => Name::new("A%"),
        Ty::Sng => Name::new("C!"),
        _ => Name::new("E#"),
    };
    let vars = vec![(name.clone(), a.clone())];
    let v = E::Var(name);
    let lit = |x: &str| E::Lit(x.to_string());
    let arg = match p[2] {
        0 => v,
        1 => E::Neg(Box::new(v)),
        2 => E::Bin(Bin::Mul, Box::new(v), Box::new(E::Neg(Box::new(lit("1"))))),
        3 => E::Bin(Bin::Mul, Box::new(lit("0!")), Box::new(v)),
        _ => E::Bin(Bin::Sub, Box::new(v.clone()), Box::new(v)),
    };
    let e = match p[0] {
        14 => E::Neg(Box::new(E::Paren(Box::new(arg)))),
        15 => E::Not(Box::new(E::Paren(Box::new(arg)))),
        f => E::Call(NUMFUNCS[f], vec![arg]),
    };
    let case = format!("{}\nPRINT {}", setup_line(&vars), render(&e));
    match check_tree(&vars, &e, None) {
        Ok((_, labels)) => {
            if labels.iter().any(|l| l.starts_with("discarded")) {
                return Outcome::discard("fuzzy equality zone");
            }
            let o = Outcome::pass(true, hash_str(item)).with_labels(labels);
            if ctx.render {
                o.with_case(case)
            } else {
                o
            }
        }
        Err((c, d)) => Outcome::fail(&c, d, case),
    }
}

// ------------------------------------------------------------------ literal typing rules

const LITERAL_CASES: &[&str] = &[
    "0", "7", "32767", "32768", "99999", "1234567", "12345678", "1.5", "1.234567", "1.2345678", "0.1", "0.10000001", "1E5", "1E-5", "1.5E3", "1D5", "1D-5", "1.5D3", "7%", "7!", "7#", "1.5!", "1.5#",
    "1E5#", "&H0", "&HFF", "&H7FFF", "&0", "&17", "&77777", ".5", "5.", "1e5", "1d5", "&hff", "16777217", "0.1#", "123456.7", "1234567.8", "1E38", "1D308",
];

fn gen_literals(part: usize, parts: usize, _th: bool, emit: &mut dyn FnMut(&str)) {
    let mut idx = 0usize;
    let mut out = |l: &str, emit: &mut dyn FnMut(&str)| {
        idx += 1;
        if idx % parts == part {
            emit(l);
        }
    };
    for l in LITERAL_CASES.iter() {
        out(l, emit);
    }
    // systematic spellings: 1..9 mantissa digits x position of the point x exponent marker and
    // sign x exponent size x type suffix
    let all = "123456789";
    for nd in 1..=9usize {
        let d = &all[..nd];
        let mut mantissas = vec![d.to_string(), format!(".{}", d), format!("{}.", d)];
        if nd > 1 {
            mantissas.push(format!("{}.{}", &d[..1], &d[1..]));
            mantissas.push(format!("{}.{}", &d[..nd - 1], &d[nd - 1..]));
        }
        for m in &mantissas {
            for ex in ["", "E", "E+", "E-", "D", "D+", "D-", "e-", "d+"] {
                let sizes: &[&str] = if ex.is_empty() { &[""] } else { &["0", "2", "10", "30"] };
                for sz in sizes {
                    for suf in ["", "!", "#", "%"] {
                        out(&format!("{}{}{}{}", m, ex, sz, suf), emit);
                    }
                }
            }
        }
    }
}

fn check_literal(item: &str, _ctx: &Ctx) -> Outcome {
    if literal(item).is_none() {
        // E with more than 7 digits, % on a fraction, ...: the typing rules do not cover it
        return Outcome::discard("spelling not covered by the typing rules");
    }
    let e = E::Lit(item.to_string());
    match check_tree(&[], &e, None) {
        Ok(_) => {
            let v = literal(item);
            Outcome::pass(true, hash_str(item)).with_case(format!("PRINT {}  -> {:?}", item, v))
        }
        Err((c, d)) => Outcome::fail(&c, d, format!("PRINT {}", item)),
    }
}

pub fn property() -> Property {
    Property {
        id: "C02",
        rule: "Cases: (trees) proptest-generated typed expression trees of depth <= 6 over all 18 binary operators, unary minus, NOT, the numeric functions (ABS SGN INT FIX CINT CSNG CDBL SQR EXP LOG SIN COS TAN ATN), LEN, \
literals in every documented spelling and nine variables preset to boundary values of each type, rendered with minimal parentheses by the manual's 13-level table (left associative) and again with random redundant parentheses; \
(matrix) every binary operator x every ordered pair of 32 boundary values (9 Integer, 10 Single, 10 Double, 3 String) = 18432 cases, exhaustive; (literals) the typing rules of chapter 1. \
Oracle: sem::eval gives the value and the type, or the BASIC error of the first failing operation in lhs, rhs, op order; observed through PRINT e, the type probes PRINT (e)*0+.1 and PRINT (e)*0+32767+1, and stores into T% T! T# T$ T followed by PRINT and the same probes on the variable. \
Transcendentals and float powers are compared within 2 ulp, everything else exactly. Discarded: float =/<> inside the undocumented epsilon, comparisons on NaN/inf. Non-trivial: >= 2 operators of different precedence levels or operands of different types; distinct by rendered case.",
        assumptions: vec![
            "number formatting of PRINT is taken from the model's formatter (Rust shortest round-trip digits, E notation above 9/17 digits); C11 validates printed numbers independently",
            "an &H literal above &H7FFF is not generated (manual and implementation disagree on whether it is -1 or OVERFLOW)",
        ],
        subs: vec![
            Sub::items("literal_typing", gen_literals, check_literal, true),
            Sub::items("operator_matrix", gen_matrix, check_matrix, true),
            Sub::items("function_table", gen_table, check_table, true),
            Sub::tape("random_trees", check_random_tree, 60_000, 3_000_000, 120),
            Sub::tape("flat_sequences", check_flat, 150_000, 6_000_000, 60),
            Sub::tape("relational_symmetry", check_rel_symmetry, 30_000, 1_000_000, 30),
        ],
    }
}
