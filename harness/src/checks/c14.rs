//! C14 — RENUM preserves the program and rewrites every reference, or changes nothing.
//! Oracle: a reference renumberer on the harness AST; the listing afterwards must equal the
//! canonical text of the renumbered tree character for character, or be unchanged after an
//! error. Behavioural side check: transcripts equal up to the line-number map.

use crate::bast::*;
use crate::drive::{flat, has_panic, Ev, Opts, Term};
use crate::expr::*;
use crate::gen::{self, GenOpts};
use crate::runner::{Ctx, Outcome, Property, Sub};
use crate::tape::{hash_str, Tape};
use std::collections::HashMap;

/// The documented renumbering: lines below old_start keep their numbers, the others become
/// new_start, new_start+step, ... in order. None = not feasible (order would change, a number
/// would exceed 65529, step 0).
pub fn renumber(p: &Program, new_start: u32, old_start: u32, step: u32) -> Option<(Program, HashMap<u16, u16>)> {
    let mut map: HashMap<u16, u16> = HashMap::new();
    let mut next = new_start;
    let mut last_kept: Option<u32> = None;
    let mut any = false;
    for l in &p.lines {
        if (l.num as u32) >= old_start {
            if step == 0 {
                return None;
            }
            if next > 65529 {
                return None;
            }
            if let Some(k) = last_kept {
                if new_start <= k {
                    return None;
                }
            }
            map.insert(l.num, next as u16);
            next += step;
            any = true;
        } else {
            last_kept = Some(l.num as u32);
        }
    }
    if step == 0 && !any {
        // nothing to renumber: whether step 0 is rejected up front is the implementation's choice
        return None;
    }
    let mut q = p.clone();
    for l in q.lines.iter_mut() {
        if let Some(n) = map.get(&l.num) {
            l.num = *n;
        }
        for s in l.stmts.iter_mut() {
            map_refs(s, &mut |r| *map.get(&r).unwrap_or(&r));
        }
    }
    Some((q, map))
}

fn arg_value(t: &mut Tape, nums: &[u16]) -> Option<u32> {
    match t.below(10) {
        0 => None,
        1 => Some(0),
        2 => Some(1),
        3 => Some(10),
        4 => Some(100),
        5 => Some(1000),
        6 => Some(65529),
        7 if !nums.is_empty() => Some(*t.pick(nums) as u32),
        8 if !nums.is_empty() => Some((*t.pick(nums) as u32 + 1).min(65529)),
        _ => Some(t.below(3000) as u32),
    }
}

/// Extra lines that exercise every referencing form, placed behind the program (never executed).
fn reference_zoo(t: &mut Tape, nums: &[u16], start: u16) -> Vec<Line> {
    let mut v = vec![];
    let mut n = start;
    let pick = |t: &mut Tape| -> u16 { *t.pick(nums) };
    let count = 2 + t.below(7);
    for _ in 0..count {
        let s: Vec<Stmt> = match t.below(12) {
            0 => vec![Stmt::Print(vec![PItem::Expr(E::Str(t.pick(&["é", "日本語", "GOTO 10", "😀x"]).to_string()))]), Stmt::Goto(pick(t))],
            1 => vec![Stmt::Let { lv: Lval::Var(Name::new("A$")), e: E::Str("ß→".into()), kw: false }, Stmt::Gosub(pick(t)), Stmt::Restore(Some(pick(t)))],
            2 => vec![Stmt::On { sel: E::Var(Name::new("A")), gosub: true, targets: vec![pick(t), pick(t), pick(t)] }],
            3 => vec![Stmt::On { sel: E::Var(Name::new("B%")), gosub: false, targets: vec![pick(t), pick(t)] }],
            4 => vec![Stmt::If { c: E::Var(Name::new("A")), then_: Arm::Line(pick(t)), else_: Some(Arm::Line(pick(t))), goto_form: false }],
            5 => vec![Stmt::If { c: E::Bin(crate::sem::Bin::Eq, Box::new(E::Var(Name::new("A$"))), Box::new(E::Str("日".into()))), then_: Arm::Line(pick(t)), else_: None, goto_form: true }],
            6 => vec![Stmt::Run(Some(pick(t)))],
            7 => vec![Stmt::Run(None), Stmt::Restore(None), Stmt::List(RangeSpec { from: None, dash: true, to: Some(pick(t)) })],
            8 => {
                let a = pick(t);
                let b = pick(t);
                vec![Stmt::List(RangeSpec { from: Some(a.min(b)), dash: true, to: Some(a.max(b)) }), Stmt::Delete(RangeSpec { from: Some(pick(t)), dash: false, to: None })]
            }
            9 => vec![Stmt::Delete(RangeSpec { from: Some(pick(t)), dash: true, to: None }), Stmt::List(RangeSpec { from: None, dash: false, to: None })],
            10 => vec![
                Stmt::If {
                    c: E::Var(Name::new("A")),
                    then_: Arm::Stmts(vec![Stmt::Print(vec![PItem::Expr(E::Str("é".into()))]), Stmt::Goto(pick(t))]),
                    else_: Some(Arm::Stmts(vec![Stmt::Gosub(pick(t)), Stmt::Goto(pick(t))])),
                    goto_form: false,
                },
            ],
            _ => vec![Stmt::Goto(pick(t)), Stmt::Rem { tick: t.chance(1, 2), text: format!(" é GOTO {} THEN {}", pick(t), pick(t)) }],
        };
        v.push(Line { num: n, stmts: s });
        n = n.saturating_add(*t.pick(&[1u16, 3, 10]));
        if n > 65000 {
            break;
        }
    }
    v
}

fn map_numbers(text: &str, map: &HashMap<u16, u16>) -> String {
    // rewrite `[n]` and ` IN n` through the map
    let b: Vec<char> = text.chars().collect();
    let mut out = String::new();
    let mut i = 0;
    while i < b.len() {
        let trace = b[i] == '[';
        let inn = i + 4 <= b.len() && b[i..i + 4].iter().collect::<String>() == " IN ";
        if trace || inn {
            let start = if trace { i + 1 } else { i + 4 };
            let mut j = start;
            while j < b.len() && b[j].is_ascii_digit() {
                j += 1;
            }
            if j > start {
                let n: u32 = b[start..j].iter().collect::<String>().parse().unwrap_or(99999);
                let m = if n <= 65535 { map.get(&(n as u16)).map(|x| *x as u32).unwrap_or(n) } else { n };
                out.extend(b[i..start].iter());
                out.push_str(&m.to_string());
                i = j;
                continue;
            }
        }
        out.push(b[i]);
        i += 1;
    }
    out
}

fn check_renum(t: &mut Tape, ctx: &Ctx) -> Outcome {
    let mut o = GenOpts::plain();
    o.size = 14;
    o.tron = false;
    let g = gen::program(t, &o);
    let mut prog = g.prog.clone();
    // line 0 / low lines that stay put are produced by the generator's numbering; add the zoo
    let nums0 = prog.line_numbers();
    if nums0.is_empty() {
        return Outcome::discard("empty program");
    }
    let mut last = *nums0.last().unwrap();
    if last < 60000 {
        // the zoo is never executed (it holds LIST, DELETE, RUN): an END in front of it
        if prog.lines.last().map(|l| l.stmts != vec![Stmt::End]).unwrap_or(false) {
            last += 1;
            prog.lines.push(Line { num: last, stmts: vec![Stmt::End] });
        }
        let gap = t.below(20) as u16;
        let zoo = reference_zoo(t, &nums0, last + 1 + gap);
        prog.lines.extend(zoo);
    }
    // sometimes a line that fills the line buffer: RENUM may give it (or a line it mentions) a
    // longer number
    let lastn = *prog.line_numbers().last().unwrap();
    if lastn < 64000 && t.chance(1, 6) {
        let num = lastn + 1 + t.below(5) as u16;
        let target = 1024 - t.below(4);
        let refn = *t.pick(&nums0);
        let mut pad = String::from(" ");
        loop {
            let l = Line { num, stmts: vec![Stmt::Goto(refn), Stmt::Rem { tick: false, text: pad.clone() }] };
            let len = render_line(&l).text.len();
            if len >= target {
                break;
            }
            pad.push(if len % 7 == 0 { 'é' } else { 'x' });
        }
        let l = Line { num, stmts: vec![Stmt::Goto(refn), Stmt::Rem { tick: false, text: pad }] };
        if render_line(&l).text.len() <= 1024 {
            prog.lines.push(l);
        }
    }
    let nums = prog.line_numbers();
    let new_start = arg_value(t, &nums);
    let old_start = arg_value(t, &nums);
    let step = match t.below(8) {
        0 => None,
        1 => Some(0),
        2 => Some(1),
        3 => Some(10),
        4 => Some(100),
        5 => Some(1000),
        6 => Some(65529),
        _ => Some(1 + t.below(50) as u32),
    };
    let cmd = render_stmts(&[Stmt::Renum(vec![new_start.map(|x| x as u16), old_start.map(|x| x as u16), step.map(|x| x as u16)])]);
    let texts = prog.texts();
    let case = format!("{}\n> {}", texts.join("\n"), cmd);
    crate::runner::note_case(&case);
    if let Err(e) = super::c01::printer_guard(&prog) {
        return Outcome::fail(&e.0, e.1, case);
    }
    let mut term = Term::new();
    let mut op = Opts::default();
    op.replies = g.replies.iter().cloned().collect();
    op.max_calls = 5000;
    for l in &texts {
        term.enter_raw(l);
        term.run(&mut op);
    }
    if !term.take().is_empty() {
        return Outcome::discard("program entry printed something");
    }
    // behaviour before (with TRON so that the executed lines are visible)
    let behave = t.chance(1, 2);
    let mut before = String::new();
    if behave {
        term.line("TRON", &mut op);
        term.take();
        let end = term.line("RUN", &mut op);
        if end != crate::drive::End::Stopped {
            return Outcome::discard("program does not finish");
        }
        before = flat(&term.take());
        term.line("TROFF", &mut op);
        term.take();
    }
    if term.listing_text() != texts {
        return Outcome::fail("canonical-text-not-listed-verbatim", format!("listing {:?}", term.listing_text()), case);
    }
    // the reference
    let reference = renumber(&prog, new_start.unwrap_or(10), old_start.unwrap_or(0), step.unwrap_or(10));
    term.line(&cmd, &mut op);
    let evs = term.take();
    if let Some(m) = has_panic(&evs) {
        return Outcome::fail("panic", m, case);
    }
    let shown_error = evs.iter().any(|e| matches!(e, Ev::Errs(_)));
    let after = term.listing_text();
    let mut labels = vec![];
    let nontrivial;
    if shown_error {
        if after != texts {
            return Outcome::fail("failed-renum-changed-the-program", format!("RENUM printed {:?} and the listing changed to\n{}", flat(&evs), after.join("\n")), case);
        }
        labels.push("RENUM refused (program unchanged)");
        nontrivial = reference.is_none();
    } else {
        match &reference {
            None => {
                return Outcome::fail(
                    "infeasible-renum-accepted",
                    format!("the renumbering is not possible (order/65529/step 0) but no error was shown; listing now\n{}", after.join("\n")),
                    case,
                )
            }
            Some((q, map)) => {
                let want = q.texts();
                if after != want {
                    let mut diff = String::new();
                    for (a, b) in after.iter().zip(want.iter()) {
                        if a != b {
                            diff.push_str(&format!("  got  {}\n  want {}\n", a, b));
                        }
                    }
                    if after.len() != want.len() {
                        diff.push_str(&format!("  {} lines instead of {}\n", after.len(), want.len()));
                    }
                    return Outcome::fail("renumbered-text-differs", format!("lines that differ from the reference renumbering:\n{}", diff), case);
                }
                // every renumbered line is still a line that can be typed and loaded (longer
                // numbers may not push it over the line buffer: then RENUM has to fail instead)
                for l in &after {
                    let mut probe = basic::mach::Listing::default();
                    if let Err(e) = probe.load_str(l) {
                        return Outcome::fail("renumbered-line-cannot-be-entered", format!("after {} the line ({} bytes)\n{}\nis refused by the loader: {}", cmd, l.len(), l, e), case);
                    }
                }
                // strictly increasing, injective
                let ns: Vec<u16> = q.line_numbers();
                if ns.windows(2).any(|w| w[0] >= w[1]) {
                    return Outcome::fail("numbering-not-increasing", format!("{:?}", ns), case);
                }
                let changed = map.iter().filter(|(a, b)| a != b).count();
                let mut forms = 0;
                for l in &prog.lines {
                    walk(&l.stmts, &mut |s| {
                        if !refs_of(s).is_empty() && !matches!(s, Stmt::If { .. }) {
                            forms += 1
                        }
                    });
                }
                nontrivial = changed > 0 && forms >= 3;
                labels.push("renumbered");
                if behave {
                    term.line("TRON", &mut op);
                    term.take();
                    // the same replies again
                    op.replies = g.replies.iter().cloned().collect();
                    let end = term.line("RUN", &mut op);
                    let got = flat(&term.take());
                    if end != crate::drive::End::Stopped {
                        return Outcome::fail("renumbered-program-does-not-finish", got, case);
                    }
                    let want = map_numbers(&before, map);
                    if got != want {
                        return Outcome::fail("behaviour-changed-by-renum", format!("after RENUM:\n{}\nbefore (line numbers mapped):\n{}", got, want), case);
                    }
                    labels.push("behaviour compared before/after");
                }
            }
        }
    }
    let o2 = Outcome::pass(nontrivial, hash_str(&case)).with_labels(labels);
    if ctx.render {
        o2.with_case(case)
    } else {
        o2
    }
}

// ------------------------------------------------------------------ literal cases

const CASES: &[&str] = &[
    "10 PRINT \"é\":GOTO 10\nRENUM 100\nLIST\n=> 100 PRINT \"é\":GOTO 100\\n",
    "10 ON X GOSUB 10,20\n20 RETURN\nRENUM 100\nLIST\n=> 100 ON X GOSUB 100,110\\n110 RETURN\\n",
    "0 RESTORE:RUN\n5 LIST-5\nRENUM 100\nLIST\n=> 100 RESTORE:RUN\\n110 LIST-110\\n",
    "10 A=1\n20 B=2\nRENUM 10,0,0\nLIST\n=> ?ILLEGAL FUNCTION CALL\\n10 A=1\\n20 B=2\\n",
    "10 REM GOTO 10\n20 PRINT \"GOTO 10\":GOTO 10\nRENUM 5,,5\nLIST\n=> 5 REM GOTO 10\\n10 PRINT \"GOTO 10\":GOTO 5\\n",
    "10 IF A THEN 20 ELSE 30\n20 GOTO 10\n30 END\nRENUM 1000,20,1\nLIST\n=> 10 IF A THEN 1000 ELSE 1001\\n1000 GOTO 10\\n1001 END\\n",
    "10 A=1\n20 B=2\nRENUM 15,20\nLIST\n=> 10 A=1\\n15 B=2\\n",
    "10 A=1\n20 B=2\nRENUM 10,20\nLIST\n=> ?ILLEGAL FUNCTION CALL\\n10 A=1\\n20 B=2\\n",
];

fn gen_cases(part: usize, parts: usize, _th: bool, emit: &mut dyn FnMut(&str)) {
    for (i, s) in CASES.iter().enumerate() {
        if i % parts == part {
            emit(s);
        }
    }
}

fn check_case(item: &str, _ctx: &Ctx) -> Outcome {
    let (prog, want) = match item.rsplit_once("\n=> ") {
        Some((p, w)) => (p, w.replace("\\n", "\n")),
        None => return Outcome::discard("no expectation"),
    };
    let mut term = Term::new();
    let mut o = Opts::default();
    for l in prog.split('\n') {
        term.line(l, &mut o);
    }
    let evs = term.take();
    if let Some(m) = has_panic(&evs) {
        return Outcome::fail("panic", m, item.to_string());
    }
    let got = flat(&evs);
    if got != want {
        return Outcome::fail("renum-case", format!("got {:?}\nwant {:?}", got, want), item.to_string());
    }
    Outcome::pass(true, hash_str(item)).with_case(item.to_string())
}

pub fn property() -> Property {
    Property {
        id: "C14",
        rule: "Cases: proptest-generated link-clean programs of the fragment (all statement kinds, GOTO/GOSUB/THEN n/ELSE n/IF..GOTO/ON..GOTO/ON..GOSUB/RESTORE n with random increasing line numbers incl. 0 and 65529) extended by a 'reference zoo' of never-executed lines using every referencing form \
(RUN n, LIST/DELETE n, n-, -n, a-b and bare forms, multi-byte string literals and remarks in front of references, references spelled inside strings and remarks) x RENUM argument triples from {omitted, 0, 1, 10, 100, 1000, 65529, an existing line, existing+1, random} incl. step 0 and overflowing combinations. \
Oracle: reference renumberer on the harness tree. If an error is shown the listing must be unchanged; otherwise the renumbering must be feasible and the listing must equal the canonical text of the renumbered tree character for character (so nothing else moved) with strictly increasing numbers. \
Half of the cases also run the program with TRON before and after: transcripts equal after mapping `[n]` and `IN n`. Non-trivial: at least one number changed and >= 3 referencing statements; distinct by program + command.",
        assumptions: vec![
            "a refusal of a feasible renumbering is allowed by the statement ('either fails and leaves the program unchanged, or renumbers')",
            "generated text is canonical (equals its own listing; checked), so whole-line equality means 'nothing else changed'",
        ],
        subs: vec![Sub::items("renum_cases", gen_cases, check_case, false), Sub::tape("renum_random", check_renum, 150_000, 4_000_000, 900)],
    }
}
