//! C07 — string operations work on characters, as documented, within 0..255.
//! Oracle: sem.rs reference implementations on Vec<char> (Chapter 3 of the manual), through the
//! reference interpreter for statement forms (MID$ assignment, stores).

use crate::bast::*;
use crate::drive::{flat, has_panic, Opts, Term};
use crate::expr::*;
use crate::model::{same_transcript, Halt, Machine};
use crate::runner::{Ctx, Outcome, Property, Sub};
use crate::sem::{Bin, Ty};
use crate::tape::{hash_str, Tape};

fn v(n: &str) -> E {
    E::Var(Name::new(n))
}

fn call(f: &'static str, a: Vec<E>) -> E {
    E::Call(f, a)
}

fn bin(op: Bin, a: E, b: E) -> E {
    E::Bin(op, Box::new(a), Box::new(b))
}

/// Source expressions for the subject strings (all storable: <= 255 characters).
fn strings() -> Vec<E> {
    let s = |x: &str| E::Str(x.to_string());
    vec![
        s(""),
        s("A"),
        s("HELLO WORLD"),
        s("é"),
        s("日本語"),
        s("😀"),
        s("aé日😀z"),
        s("abcabc"),
        call("STRING$", vec![E::Lit("254".into()), s("x")]),
        call("STRING$", vec![E::Lit("255".into()), s("é")]),
        bin(Bin::Add, call("STRING$", vec![E::Lit("250".into()), s("日")]), s("abcde")),
        s("  pad  "),
    ]
}

fn patterns() -> Vec<E> {
    let s = |x: &str| E::Str(x.to_string());
    vec![s(""), s("A"), s("b"), s("é"), s("日"), s("😀z"), s("abc"), s("WORLD"), s("xx"), s("c"), s("Z")]
}

fn positions() -> Vec<E> {
    let l = |x: &str| E::Lit(x.to_string());
    let n = |x: &str| E::Neg(Box::new(E::Lit(x.to_string())));
    vec![l("0"), l("1"), l("2"), l("3"), l("5"), l("6"), l("7"), l("254"), l("255"), l("256"), l("32767"), n("1"), n("32767"), l("2.5"), l("0.9"), l("1D0"), l("32768"), l("65536"), n("0.5"), l("2.99999999#"), l("0.99999999#"), l("255.99999999#"), l("1.9999999")]
}

const FORMS: usize = 27;

fn print_b(e: E) -> Stmt {
    Stmt::Print(vec![PItem::Expr(E::Str("<".into())), PItem::Semi, PItem::Expr(e), PItem::Semi, PItem::Expr(E::Str(">".into()))])
}

/// One case: a direct line (statement list) for form f with subject s, pattern p, numbers i, j.
fn case(f: usize, s: &E, p: &E, i: &E, j: &E) -> Vec<Stmt> {
    let set = |n: &str, e: &E| Stmt::Let { lv: Lval::Var(Name::new(n)), e: e.clone(), kw: false };
    let mut v0 = vec![set("S$", s), set("P$", p)];
    let body: Vec<Stmt> = match f {
        0 => vec![print_b(call("LEN", vec![v("S$")])), print_b(call("LEN", vec![bin(Bin::Add, v("S$"), v("P$"))]))],
        1 => vec![print_b(call("LEFT$", vec![v("S$"), i.clone()]))],
        2 => vec![print_b(call("RIGHT$", vec![v("S$"), i.clone()]))],
        3 => vec![print_b(call("MID$", vec![v("S$"), i.clone()]))],
        4 => vec![print_b(call("MID$", vec![v("S$"), i.clone(), j.clone()]))],
        5 => vec![print_b(call("INSTR", vec![v("S$"), v("P$")]))],
        6 => vec![print_b(call("INSTR", vec![i.clone(), v("S$"), v("P$")]))],
        7 => vec![print_b(call("ASC", vec![v("S$")])), print_b(call("ASC", vec![v("P$")]))],
        8 => vec![print_b(call("CHR$", vec![i.clone()])), print_b(call("LEN", vec![call("CHR$", vec![i.clone()])]))],
        9 => vec![print_b(call("STRING$", vec![i.clone(), v("P$")])), print_b(call("LEN", vec![call("STRING$", vec![i.clone(), v("P$")])]))],
        10 => vec![print_b(call("STRING$", vec![j.clone(), i.clone()]))],
        11 => vec![print_b(call("SPC", vec![i.clone()]))],
        12 => vec![print_b(call("STR$", vec![i.clone()])), print_b(call("VAL", vec![call("STR$", vec![i.clone()])]))],
        13 => vec![print_b(call("HEX$", vec![i.clone()])), print_b(call("OCT$", vec![i.clone()]))],
        14 => {
            // MID$ assignment, 2 and 3 argument forms
            vec![
                set("T$", &v("S$")),
                Stmt::MidSet { lv: Lval::Var(Name::new("T$")), pos: i.clone(), len: None, e: v("P$") },
                print_b(v("T$")),
                print_b(call("LEN", vec![v("T$")])),
            ]
        }
        15 => vec![
            set("T$", &v("S$")),
            Stmt::MidSet { lv: Lval::Var(Name::new("T$")), pos: i.clone(), len: Some(j.clone()), e: v("P$") },
            print_b(v("T$")),
            print_b(call("LEN", vec![v("T$")])),
        ],
        16 => {
            // the 255-character store limit counts characters
            vec![set("T$", &bin(Bin::Add, v("S$"), v("P$"))), print_b(call("LEN", vec![v("T$")]))]
        }
        17 => vec![Stmt::Print(vec![
            PItem::Expr(bin(Bin::Lt, v("S$"), v("P$"))),
            PItem::Semi,
            PItem::Expr(bin(Bin::Eq, v("S$"), v("P$"))),
            PItem::Semi,
            PItem::Expr(bin(Bin::Ge, v("S$"), v("P$"))),
            PItem::Semi,
            PItem::Expr(bin(Bin::Ne, bin(Bin::Add, v("S$"), v("P$")), bin(Bin::Add, v("P$"), v("S$")))),
        ])],
        22 => {
            // the store limit applies to every string variable: DEFSTR names and array elements too
            vec![
                Stmt::DefType(Ty::Str, 'U', 'V'),
                Stmt::Let { lv: Lval::Var(Name::new("U")), e: bin(Bin::Add, v("S$"), v("P$")), kw: false },
                print_b(call("LEN", vec![v("U")])),
                Stmt::Let { lv: Lval::Elem(Name::new("V"), vec![E::Lit("1".into())]), e: bin(Bin::Add, v("P$"), v("S$")), kw: false },
                print_b(call("LEN", vec![E::Elem(Name::new("V"), vec![E::Lit("1".into())])])),
                Stmt::Let { lv: Lval::Elem(Name::new("W$"), vec![E::Lit("2".into())]), e: bin(Bin::Add, v("S$"), v("P$")), kw: false },
                print_b(call("LEN", vec![E::Elem(Name::new("W$"), vec![E::Lit("2".into())])])),
            ]
        }
        23 => {
            // concatenation takes strings only, whatever the string operand holds (also "")
            vec![
                print_b(bin(Bin::Add, v("S$"), i.clone())),
                print_b(bin(Bin::Add, i.clone(), v("S$"))),
                Stmt::Let { lv: Lval::Var(Name::new("T$")), e: bin(Bin::Add, v("S$"), i.clone()), kw: false },
                Stmt::Let { lv: Lval::Var(Name::new("N")), e: bin(Bin::Add, v("S$"), i.clone()), kw: false },
                print_b(v("N")),
            ]
        }
        24 => {
            // arguments of the wrong kind are a TYPE MISMATCH, not a silent reinterpretation
            vec![
                print_b(call("CHR$", vec![v("S$")])),
                print_b(call("ASC", vec![i.clone()])),
                print_b(call("LEN", vec![i.clone()])),
                print_b(call("LEFT$", vec![i.clone(), E::Lit("1".into())])),
                print_b(call("RIGHT$", vec![v("S$"), v("P$")])),
                print_b(call("MID$", vec![v("S$"), v("P$")])),
                print_b(call("STRING$", vec![v("P$"), v("S$")])),
                print_b(call("SPC", vec![v("S$")])),
                print_b(call("HEX$", vec![v("S$")])),
                print_b(call("OCT$", vec![v("P$")])),
                print_b(call("VAL", vec![i.clone()])),
                print_b(call("STR$", vec![v("S$")])),
                print_b(call("INSTR", vec![v("S$"), i.clone()])),
                print_b(call("INSTR", vec![v("P$"), v("S$"), v("P$")])),
            ]
        }
        25 => {
            // the subject is an intermediate value that was never stored: it may be longer than 255
            // characters and is still cut exactly; only storing the result is limited
            let ss = bin(Bin::Add, v("S$"), v("S$"));
            let sps = bin(Bin::Add, bin(Bin::Add, v("S$"), v("P$")), v("S$"));
            vec![
                print_b(call("LEN", vec![call("LEFT$", vec![ss.clone(), i.clone()])])),
                print_b(call("LEN", vec![call("RIGHT$", vec![sps.clone(), i.clone()])])),
                print_b(call("LEN", vec![call("MID$", vec![ss.clone(), i.clone()])])),
                print_b(call("LEN", vec![call("MID$", vec![sps.clone(), i.clone(), i.clone()])])),
                set("T$", &call("LEFT$", vec![ss.clone(), i.clone()])),
                print_b(call("LEN", vec![v("T$")])),
                set("T$", &call("RIGHT$", vec![sps.clone(), i.clone()])),
                print_b(call("RIGHT$", vec![v("T$"), E::Lit("3".into())])),
                set("T$", &call("MID$", vec![ss.clone(), i.clone(), E::Lit("255".into())])),
                print_b(call("LEFT$", vec![v("T$"), E::Lit("2".into())])),
                print_b(call("INSTR", vec![i.clone(), sps.clone(), v("P$")])),
                print_b(call("ASC", vec![ss])),
            ]
        }
        26 => {
            // a number where the string belongs is a TYPE MISMATCH whatever the count is (also 0)
            let n = |x: &str| E::Lit(x.to_string());
            vec![
                print_b(call("RIGHT$", vec![i.clone(), n("0")])),
                print_b(call("RIGHT$", vec![i.clone(), n("1")])),
                print_b(call("LEFT$", vec![i.clone(), n("0")])),
                print_b(call("LEFT$", vec![i.clone(), n("255")])),
                print_b(call("MID$", vec![i.clone(), n("1"), n("0")])),
                print_b(call("MID$", vec![i.clone(), n("1")])),
                print_b(call("MID$", vec![i.clone(), n("300")])),
                print_b(call("INSTR", vec![i.clone(), v("S$")])),
                print_b(call("INSTR", vec![n("1"), i.clone(), E::Str(String::new())])),
                print_b(call("STRING$", vec![n("0"), v("S$")])),
                print_b(bin(Bin::Lt, i.clone(), v("S$"))),
            ]
        }
        // metamorphic identities (each must print -1)
        18 => vec![Stmt::Print(vec![PItem::Expr(bin(Bin::Eq, bin(Bin::Add, call("LEFT$", vec![v("S$"), i.clone()]), call("MID$", vec![v("S$"), bin(Bin::Add, i.clone(), E::Lit("1".into()))])), v("S$")))])],
        19 => vec![
            set("N", i),
            Stmt::Print(vec![PItem::Expr(bin(
                Bin::Or,
                bin(Bin::And, bin(Bin::Le, v("N"), call("LEN", vec![v("S$")])), bin(Bin::Eq, call("LEN", vec![call("LEFT$", vec![v("S$"), v("N")])]), call("INT", vec![v("N")]))),
                bin(Bin::And, bin(Bin::Gt, v("N"), call("LEN", vec![v("S$")])), bin(Bin::Eq, call("LEFT$", vec![v("S$"), v("N")]), v("S$"))),
            ))]),
        ],
        20 => vec![Stmt::Print(vec![PItem::Expr(bin(Bin::Eq, call("CHR$", vec![call("ASC", vec![bin(Bin::Add, v("S$"), E::Str("q".into()))])]), call("LEFT$", vec![bin(Bin::Add, v("S$"), E::Str("q".into())), E::Lit("1".into())])))])],
        _ => {
            // INSTR: a hit at r means MID$(s,r,LEN(p)) = p
            vec![
                set("R", &call("INSTR", vec![v("S$"), v("P$")])),
                Stmt::Print(vec![PItem::Expr(bin(Bin::Or, bin(Bin::Eq, v("R"), E::Lit("0".into())), bin(Bin::Eq, call("MID$", vec![v("S$"), v("R"), call("LEN", vec![v("P$")])]), v("P$"))))]),
            ]
        }
    };
    v0.extend(body);
    v0
}

/// Splits a statement list into several direct lines so that an error in one does not hide the
/// rest, and compares model and implementation transcripts.
fn run_case(stmts: &[Stmt], must_be_true: bool) -> Result<bool, (String, String)> {
    let empty = Program::default();
    let mut m = Machine::new(&empty);
    let mut term = Term::new();
    let mut o = Opts::default();
    let mut had_error = false;
    // setup (first two LETs) is one line; every further statement its own line
    let mut lines: Vec<Vec<Stmt>> = vec![stmts[..2.min(stmts.len())].to_vec()];
    for s in stmts.iter().skip(2) {
        lines.push(vec![s.clone()]);
    }
    for l in &lines {
        let text = render_stmts(l);
        if text.len() > 1000 {
            return Ok(false);
        }
        let h = m.direct_line(l);
        let want = std::mem::take(&mut m.out);
        if h == Halt::Budget || m.undefined.is_some() {
            return Err(("harness".into(), format!("model could not run {:?}: {:?}", text, m.undefined)));
        }
        if m.flags.fuzzy_eq {
            // INSTR with a negative start / start beyond the end with an empty pattern, VAL("INF"):
            // the manual leaves these open
            return Ok(false);
        }
        term.line(&text, &mut o);
        let got = term.take();
        if let Some(p) = has_panic(&got) {
            return Err(("panic".into(), p));
        }
        if !same_transcript(&want, &got) {
            return Err(("string-function".into(), format!("{}\n--- documented:\n{}\n--- implementation:\n{}", text, flat(&want), flat(&got))));
        }
        let w = flat(&want);
        if w.starts_with('?') {
            had_error = true;
        }
        if must_be_true && l == lines.last().unwrap() && !w.starts_with('?') && w != "-1 \n" {
            return Err(("harness-identity".into(), format!("the identity {} is not true in the reference semantics: {:?}", text, w)));
        }
    }
    Ok(had_error)
}

fn gen_matrix(part: usize, parts: usize, thorough: bool, emit: &mut dyn FnMut(&str)) {
    let ns = strings().len();
    let np = patterns().len();
    let nn = positions().len();
    let mut idx = 0usize;
    for f in 0..FORMS {
        let uses_j = matches!(f, 4 | 10 | 15);
        let uses_i = !matches!(f, 0 | 5 | 7 | 16 | 17 | 20 | 21 | 22);
        let uses_p = matches!(f, 0 | 5 | 6 | 7 | 9 | 14 | 15 | 16 | 17 | 21 | 22 | 24 | 25);
        for s in 0..ns {
            for p in 0..(if uses_p { np } else { 1 }) {
                if !thorough && uses_p && uses_i && p % 2 == 1 {
                    continue;
                }
                for i in 0..(if uses_i { nn } else { 1 }) {
                    for j in 0..(if uses_j { nn } else { 1 }) {
                        idx += 1;
                        if idx % parts == part {
                            emit(&format!("{} {} {} {} {}", f, s, p, i, j));
                        }
                    }
                }
            }
        }
    }
}

fn check_matrix(item: &str, ctx: &Ctx) -> Outcome {
    let k: Vec<usize> = item.split_whitespace().filter_map(|x| x.parse().ok()).collect();
    if k.len() != 5 {
        return Outcome::discard("bad item");
    }
    let (ss, ps, ns) = (strings(), patterns(), positions());
    if k[0] >= FORMS || k[1] >= ss.len() || k[2] >= ps.len() || k[3] >= ns.len() || k[4] >= ns.len() {
        return Outcome::discard("bad index");
    }
    let stmts = case(k[0], &ss[k[1]], &ps[k[2]], &ns[k[3]], &ns[k[4]]);
    let text = render_stmts(&stmts);
    match run_case(&stmts, (18..=21).contains(&k[0])) {
        Ok(err) => {
            let multibyte = k[1] >= 3 && k[1] != 7 && k[1] != 8 && k[1] != 11;
            let o = Outcome::pass(multibyte || k[3] != 1, hash_str(item)).with_labels(if err { vec!["out-of-domain argument -> BASIC error"] } else { vec![] });
            if ctx.render {
                o.with_case(text)
            } else {
                o
            }
        }
        Err((c, d)) => Outcome::fail(&c, d, text),
    }
}

const CHARS: &[char] = &['a', 'b', 'A', 'Z', ' ', '0', '9', ',', 'é', 'ß', '日', '本', '😀', '\u{301}', 'x', 'y'];

fn rand_string(t: &mut Tape, max: usize) -> E {
    let n = t.below(max + 1);
    let s: String = (0..n).map(|_| *t.pick(CHARS)).collect();
    E::Str(s)
}

fn check_random(t: &mut Tape, ctx: &Ctx) -> Outcome {
    let f = t.below(FORMS);
    let s = if t.chance(1, 6) { strings()[t.below(strings().len())].clone() } else { rand_string(t, 12) };
    let p = if t.chance(1, 2) {
        // a pattern that occurs: cut it out of the subject when that is a literal
        match &s {
            E::Str(x) if !x.is_empty() => {
                let cs: Vec<char> = x.chars().collect();
                let a = t.below(cs.len());
                let b = a + t.below(cs.len() - a + 1);
                E::Str(cs[a..b].iter().collect())
            }
            _ => rand_string(t, 3),
        }
    } else {
        rand_string(t, 3)
    };
    let num = |t: &mut Tape| -> E {
        match t.below(5) {
            0 => positions()[t.below(positions().len())].clone(),
            1 => E::Lit(format!("{}", t.below(300))),
            2 => E::Lit(format!("{}.{}", t.below(14), t.below(10))),
            3 => E::Lit(format!("{}", 60 + t.below(200000))),
            _ => E::Lit(format!("{}", t.below(14))),
        }
    };
    let i = num(t);
    let j = num(t);
    let stmts = case(f, &s, &p, &i, &j);
    let text = render_stmts(&stmts);
    match run_case(&stmts, (18..=21).contains(&f)) {
        Ok(err) => {
            let multibyte = text.chars().any(|c| !c.is_ascii());
            let o = Outcome::pass(multibyte, hash_str(&text)).with_labels(if err { vec!["out-of-domain argument -> BASIC error"] } else { vec![] });
            if ctx.render {
                o.with_case(text)
            } else {
                o
            }
        }
        Err((c, d)) => Outcome::fail(&c, d, text),
    }
}

/// VAL over numeric-looking texts: every documented spelling (decimal, exponent with E e D d,
/// type suffix, & octal and &H hex with all sixteen digits in both cases), with blanks and junk.
fn check_val(t: &mut Tape, ctx: &Ctx) -> Outcome {
    let x = crate::textgen::numeric_text(t);
    let stmts = vec![
        Stmt::Let { lv: Lval::Var(Name::new("S$")), e: E::Str(x.clone()), kw: false },
        Stmt::Let { lv: Lval::Var(Name::new("P$")), e: E::Str(String::new()), kw: false },
        print_b(call("VAL", vec![v("S$")])),
        print_b(call("VAL", vec![bin(Bin::Add, E::Str("-".into()), v("S$"))])),
    ];
    let text = render_stmts(&stmts);
    match run_case(&stmts, false) {
        Ok(_) => {
            let o = Outcome::pass(x.contains('&') || x.contains(|c: char| "EeDd".contains(c)), hash_str(&text)).with_labels(vec![if x.contains('&') { "& / &H text" } else { "decimal text" }]);
            if ctx.render {
                o.with_case(text)
            } else {
                o
            }
        }
        Err((c, d)) => Outcome::fail(&c, d, text),
    }
}

pub fn property() -> Property {
    Property {
        id: "C07",
        rule: "Cases: 27 forms — the cutting functions applied to intermediate values that were never stored and exceed 255 characters (S$+S$, S$+P$+S$: cut exactly, only the store is limited), LEN, LEFT$, RIGHT$, MID$ (2 and 3 arguments), INSTR (2 and 3 arguments), ASC, CHR$, STRING$ (string and code), SPC, STR$/VAL, HEX$/OCT$, MID$ assignment (2 and 3 arguments), wrong-kind arguments (a string where a number belongs and vice versa: TYPE MISMATCH), the 255-character store limit (for $ names, DEFSTR names and array elements), comparison and concatenation (string + number in either order is TYPE MISMATCH, also for the empty string), and four metamorphic identities \
(LEFT$(s,n)+MID$(s,n+1)=s; LEN(LEFT$(s,n))=min(n,len); CHR$(ASC(c))=c; an INSTR hit r satisfies MID$(s,r,LEN(p))=p). (matrix) the exhaustive cross product of 12 subject strings (empty, ASCII, 2/3/4-byte characters, mixed, 254/255-character strings built by STRING$ and concatenation), 11 patterns and 19 positions/counts \
(0, 1, 2, len-1, len, len+1, 254..256, 32767, 32768, 65536, negative, fractional, Double); (random) proptest-generated strings over a 16-character alphabet with patterns cut out of the subject; (val_texts) VAL of generated numeric texts: signs, digits, fraction, E e D d exponents, type suffixes, & and &H forms over all hex digits in both cases, leading blanks, trailing junk. \
Oracle: reference implementations on characters written from Chapter 3; results exact, out-of-domain arguments must give a BASIC error (the named code where the manual names one). Open points skipped: INSTR with a negative start, INSTR beyond the end with an empty pattern. \
Non-trivial: a multi-byte subject or a boundary position; distinct by case.",
        assumptions: vec!["string comparison is by code point (the manual only says strings compare)", "values are observed through PRINT between < and > markers"],
        subs: vec![Sub::items("boundary_matrix", gen_matrix, check_matrix, true), Sub::tape("random_strings", check_random, 400_000, 8_000_000, 80), Sub::tape("val_texts", check_val, 150_000, 4_000_000, 40)],
    }
}
