//! C12 — RUN, CLEAR and NEW reset state completely.
//! Differential oracle: after any session prefix, RUN (resp. a probe battery after CLEAR / NEW)
//! behaves as in a fresh interpreter holding the same listing.

use crate::drive::{flat, has_panic, Opts, Term};
use crate::gen::{self, GenOpts, Generated};
use crate::runner::{Ctx, Outcome, Property, Sub};
use crate::tape::{hash_str, Tape};

const DIRECTS: &[&str] = &[
    "A=5:B%=7:A$=\"zz\":A#=1.5:C=2:X=9:Y%=3:Z#=4:B$=\"q\":S$=\"w\":B!=8",
    "I=7:J%=3:K=2:L#=1:M%=4:W1%=9:W2=9:W3%=9:F9%=5",
    "DIM Q(3)",
    "DIM T$(2,2),R%(1),U#(2),V(1,1)",
    "Q(1)=5:V(2)=7:T$(1)=\"t\":R%(0)=1",
    "DEFINT A-Z",
    "DEFSTR S",
    "DEFDBL X-Z",
    "DEFSNG A",
    "READ A",
    "READ A,B,C",
    "RESTORE",
    "FOR I=1 TO 10",
    "FOR J%=5 TO 1 STEP -1:FOR K=1 TO 2",
    "FOR I1=1 TO 3:FOR J1%=1 TO 2",
    "X=RND(-3)",
    "ERASE Q",
    "WHILE 0:WEND",
    "PRINT FNA(1)",
    "A$=STRING$(200,\"x\")",
    "PRINT 1/0",
    "PRINT 1\\0",
    "SWAP A,B",
    "CLEAR",
];

fn type_in(term: &mut Term, texts: &[String]) {
    let mut o = Opts::default();
    for l in texts {
        term.enter_raw(l);
        term.run(&mut o);
    }
    term.take();
}

struct Prefix {
    script: String,
    dirty: Vec<&'static str>,
}

/// Plays a random session prefix on `term` (which already holds the listing of `g`).
fn play_prefix(t: &mut Tape, term: &mut Term, g: &Generated, subs: &[u16]) -> Prefix {
    let mut p = Prefix { script: String::new(), dirty: vec![] };
    let n = 1 + t.below(6);
    for _ in 0..n {
        match t.weighted(&[5, 4, 2]) {
            0 => {
                // an earlier run with other replies: to the end, to an error, to STOP, or interrupted
                let mut o = Opts::default();
                let mut replies = g.replies.clone();
                replies.reverse();
                replies.truncate(t.below(replies.len() + 1));
                o.replies = replies.iter().cloned().collect();
                let cmd = "RUN".to_string();
                let interrupt_at = if t.chance(1, 2) { Some(1 + t.below(60)) } else { None };
                o.quantum = if interrupt_at.is_some() { 4 } else { 5000 };
                p.script.push_str(&format!("{} (replies {:?}, interrupt after {:?} calls)\n", cmd, replies, interrupt_at));
                term.enter_raw(&cmd);
                let mut k = 0;
                loop {
                    if Some(k) == interrupt_at {
                        term.interrupt();
                    }
                    if term.step(&mut o) || term.dead {
                        break;
                    }
                    k += 1;
                    if k > 4000 {
                        term.interrupt();
                        let mut o2 = Opts::default();
                        term.run(&mut o2);
                        break;
                    }
                }
                let out = flat(&term.take());
                if out.contains("?BREAK") {
                    p.dirty.push("an interrupted or stopped run");
                } else if out.contains(" IN ") {
                    p.dirty.push("a run that ended in an error");
                } else {
                    p.dirty.push("a completed run");
                }
                if !term.dead && term.rt.verif_probe().stack_len > 0 {
                    p.dirty.push("pending FOR/GOSUB frames");
                }
            }
            1 => {
                let d = t.pick(DIRECTS).to_string();
                p.script.push_str(&format!("{}\n", d));
                let mut o = Opts::default();
                o.max_calls = 500;
                term.line(&d, &mut o);
                term.take();
                if d.starts_with("DEF") {
                    p.dirty.push("a DEFtype");
                } else if d.starts_with("DIM") {
                    p.dirty.push("a DIM");
                } else if d.starts_with("READ") {
                    p.dirty.push("an advanced DATA pointer");
                } else if d.starts_with("FOR") {
                    p.dirty.push("pending FOR/GOSUB frames");
                } else if d.contains('=') {
                    p.dirty.push("non-default variables");
                }
            }
            _ => {
                if !subs.is_empty() {
                    let d = format!("GOSUB {}", t.pick(subs));
                    p.script.push_str(&format!("{}\n", d));
                    let mut o = Opts::default();
                    o.replies = g.replies.iter().cloned().collect();
                    o.max_calls = 2000;
                    term.line(&d, &mut o);
                    term.take();
                    p.dirty.push("a direct GOSUB into the program");
                }
            }
        }
        if term.dead {
            break;
        }
    }
    p.dirty.sort();
    p.dirty.dedup();
    p
}

fn gen_prog(t: &mut Tape) -> Generated {
    let mut o = GenOpts::full();
    o.tron = false;
    o.stop = t.chance(1, 2);
    o.size = 18;
    gen::program(t, &o)
}

fn sub_lines(g: &Generated) -> Vec<u16> {
    // lines that are GOSUB targets
    let mut v = vec![];
    for l in &g.prog.lines {
        crate::bast::walk(&l.stmts, &mut |s| {
            if let crate::bast::Stmt::Gosub(n) = s {
                v.push(*n)
            }
        });
    }
    v.sort();
    v.dedup();
    v
}

const FINAL_PROBES: &[&str] = &["PRINT A;B;C;A%;B%;A#;B!;X;Y%;Z#", "PRINT A$;\"|\";B$;\"|\";S$;\"|\";I;J%;K;L#;M%;W1%;W2;W3%;F9%", "PRINT Q(1);V(1);R%(1);U#(1);T$(1)"];

fn run_and_probe(term: &mut Term, cmd: &str, replies: &[String], file: Option<&str>) -> String {
    let mut o = Opts::default();
    if let Some(f) = file {
        o.files.insert("F".to_string(), f.to_string());
    }
    o.replies = replies.iter().cloned().collect();
    o.max_calls = 5000;
    let end = term.line(cmd, &mut o);
    let mut s = flat(&term.take());
    s.push_str(&format!("«{:?}»", end));
    for p in FINAL_PROBES {
        term.line(p, &mut o);
        s.push_str(&flat(&term.take()));
    }
    s
}

fn check_run(t: &mut Tape, ctx: &Ctx) -> Outcome {
    let g = gen_prog(t);
    let mut texts = g.prog.texts();
    // how the final run is started: 0 = RUN [n] on both sides; 1 = CLEAR:GOTO n after the prefix
    // versus RUN n in the fresh interpreter (RUN behaves as CLEAR followed by GOTO); 2 = the
    // program opens with a CLEAR line and is entered by GOTO <that line> versus a fresh RUN
    // 3 = RUN "F" with the program in the file F on both sides (a load is a NEW: it also ends
    // trace mode, so here the prefix may switch TRON on)
    let mut mode = *t.pick(&[0usize, 0, 1, 2, 3]);
    let first = g.prog.lines.first().map(|l| l.num).unwrap_or(0);
    let mut clear_line = 0u16;
    if mode == 2 {
        if first >= 1 {
            clear_line = first - 1;
            texts.insert(0, format!("{} CLEAR", clear_line));
        } else {
            mode = 0;
        }
    }
    let subs = sub_lines(&g);
    let mut h = Term::new();
    // second family: the interpreter first held another program
    let switched = t.chance(1, 3);
    let mut script = String::new();
    if switched {
        let g0 = gen_prog(t);
        let t0 = g0.prog.texts();
        type_in(&mut h, &t0);
        script.push_str(&format!("(another program typed first: {} lines)\n", t0.len()));
        let p0 = play_prefix(t, &mut h, &g0, &sub_lines(&g0));
        script.push_str(&p0.script);
        if t.chance(1, 2) {
            script.push_str("NEW, then the program is typed\n");
            let mut o = Opts::default();
            h.line("NEW", &mut o);
            h.take();
        } else {
            script.push_str("old lines deleted one by one, then the program is typed\n");
            let mut o = Opts::default();
            for n in g0.prog.line_numbers() {
                h.line(&format!("{}", n), &mut o);
            }
            h.take();
        }
    }
    type_in(&mut h, &texts);
    let pre = play_prefix(t, &mut h, &g, &subs);
    script.push_str(&pre.script);
    let nums = g.prog.line_numbers();
    let target = if !nums.is_empty() && t.chance(1, 4) { Some(*t.pick(&nums)) } else { None };
    if mode == 3 && t.chance(2, 3) {
        script.push_str("TRON\n");
        let mut o = Opts::default();
        h.line("TRON", &mut o);
        h.take();
    }
    let (cmd, cmd_fresh) = match (mode, target) {
        (3, _) => ("RUN \"F\"".to_string(), "RUN \"F\"".to_string()),
        (1, Some(n)) => (format!("CLEAR:GOTO {}", n), format!("RUN {}", n)),
        (1, None) if !nums.is_empty() => (format!("CLEAR:GOTO {}", nums[0]), "RUN".to_string()),
        (2, _) => (format!("GOTO {}", clear_line), "RUN".to_string()),
        (_, Some(n)) => (format!("RUN {}", n), format!("RUN {}", n)),
        _ => ("RUN".to_string(), "RUN".to_string()),
    };
    let case = format!("{}\n--- session prefix:\n{}--- then: {}   (fresh interpreter: {})\nreplies {:?}", texts.join("\n"), script, cmd, cmd_fresh, g.replies);
    crate::runner::note_case(&case);
    if let Some(m) = has_panic(&h.log) {
        return Outcome::fail("panic", m, case);
    }
    let file_text = texts.join("\n");
    let file = if mode == 3 { Some(file_text.as_str()) } else { None };
    let got = run_and_probe(&mut h, &cmd, &g.replies, file);
    let mut f = Term::new();
    if mode != 3 {
        type_in(&mut f, &texts);
    }
    let want = run_and_probe(&mut f, &cmd_fresh, &g.replies, file);
    if got != want {
        return Outcome::fail("run-after-prefix-differs-from-fresh", format!("after the prefix:\n{}\n--- fresh interpreter:\n{}", got, want), case);
    }
    let nt = !pre.dirty.is_empty();
    let mut labels = pre.dirty.clone();
    if switched {
        labels.push("switched from another program");
    }
    labels.push(match mode {
        1 => "final run started by CLEAR:GOTO n (fresh side: RUN n)",
        2 => "program opens with a CLEAR line, entered by GOTO (fresh side: RUN)",
        3 => "final run started by RUN \"file\" (fresh side: an empty interpreter doing the same)",
        _ => "final run started by RUN [n]",
    });
    let o2 = Outcome::pass(nt, hash_str(&case)).with_labels(labels);
    if ctx.render {
        o2.with_case(case)
    } else {
        o2
    }
}

const BATTERY: &[&str] = &[
    "PRINT A;B;C;A%;B%;A#;B!;X;Y%;Z#;I;J%;K",
    "PRINT A$;\"|\";B$;\"|\";S$;\"|\";S;\"|\"",
    "DIM Q(5)",
    "DIM T$(1),R%(2),U#(1),V(3)",
    "PRINT Q(4);V(3);T$(1);R%(2)",
    "A=1.5:PRINT A",
    "S=1.5:PRINT S",
    "X=1.25:PRINT X;X*0+.1",
    "Z=1/3:PRINT Z",
    "READ A:PRINT A",
    "READ B$:PRINT B$",
    "RETURN",
    "NEXT",
    "NEXT I",
    "CONT",
    "PRINT FNA(1)",
    "PRINT FNB$(1,2)",
    "PRINT LEN(A$+B$+S$)",
];

fn battery(term: &mut Term, rot: usize) -> String {
    let mut o = Opts::default();
    o.max_calls = 500;
    let mut s = String::new();
    // the probes disturb each other (RETURN empties the frame stack): start at a random one
    let n = BATTERY.len();
    for i in 0..n {
        let b = &BATTERY[(i + rot) % n];
        term.line(b, &mut o);
        s.push_str(&format!("{} -> {}", b, flat(&term.take())));
    }
    s
}

fn check_clear_new(t: &mut Tape, ctx: &Ctx) -> Outcome {
    let g = gen_prog(t);
    let texts = g.prog.texts();
    let subs = sub_lines(&g);
    let mut h = Term::new();
    type_in(&mut h, &texts);
    let pre = play_prefix(t, &mut h, &g, &subs);
    let use_new = t.chance(1, 3);
    let cmd = if use_new {
        "NEW"
    } else if t.chance(1, 4) {
        "CLEAR ,16384,1000"
    } else {
        "CLEAR"
    };
    // CLEAR and NEW work whatever state the stored program is in: a quarter of the cases make it
    // a program that does not compile first (both here and in the fresh interpreter)
    let mut texts = texts;
    let mut faulty = false;
    let mut o = Opts::default();
    if t.chance(1, 4) {
        let bad = t.pick(&["65000 GOTO 64999", "65000 PRINT )", "65000 WHILE 1"]).to_string();
        h.line(&bad, &mut o);
        h.take();
        texts.push(bad);
        faulty = true;
    }
    // NEW as a statement of the stored program: what stands behind it belongs to a program that
    // no longer exists and never runs
    let mut cmd = cmd.to_string();
    if use_new && !faulty && t.chance(1, 3) {
        let l1 = "65100 NEW:A=5:B$=\"z\":DIM Q(2):PRINT \"STILL RUNNING\"".to_string();
        let l2 = "65101 A%=7:PRINT \"NEXT LINE\":GOTO 65101".to_string();
        for l in [&l1, &l2] {
            h.line(l, &mut o);
            texts.push(l.clone());
        }
        h.take();
        cmd = t.pick(&["GOTO 65100", "RUN 65100", "GOSUB 65100", "A=1:GOTO 65100"]).to_string();
    }
    let cmd = cmd.as_str();
    let case = format!("{}\n--- session prefix:\n{}--- then: {} and the probe battery", texts.join("\n"), pre.script, cmd);
    crate::runner::note_case(&case);
    // the host may still hold what get_listing() gave it (a SAVE in progress, the editor's copy)
    let _snapshot = if t.chance(1, 2) { Some(h.rt.get_listing()) } else { None };
    h.line(cmd, &mut o);
    let out = flat(&h.take());
    if !out.is_empty() {
        return Outcome::fail("clear-or-new-printed-something", format!("{} printed {:?}", cmd, out), case);
    }
    let mut f = Term::new();
    if use_new {
        h.line("LIST", &mut o);
        let l = flat(&h.take());
        if !l.is_empty() {
            return Outcome::fail("new-left-a-program", format!("after NEW, LIST printed {:?}", l), case);
        }
        if !h.listing_text().is_empty() {
            return Outcome::fail("new-left-a-program", format!("get_listing() still has {:?}", h.listing_text()), case);
        }
        if t.chance(1, 2) {
            // RUN of the empty program prints nothing (it also resets, so only half of the cases do it)
            h.line("RUN", &mut o);
            let r = flat(&h.take());
            if !r.is_empty() {
                return Outcome::fail("new-left-a-program", format!("after NEW, RUN printed {:?}", r), case);
            }
        }
        // a new program typed after NEW starts from scratch: its DATA is read from the first constant
        // (typing a line is an edit and resets the execution state by itself, so only half of
        // the cases do it: the others probe what NEW alone left behind)
        if t.chance(1, 2) {
            let fresh_prog = vec!["1 DATA 11,\"NEWDATA\",33,44".to_string(), "2 DEF FNA(X)=X+1000".to_string()];
            type_in(&mut h, &fresh_prog);
            type_in(&mut f, &fresh_prog);
        }
    } else {
        type_in(&mut f, &texts);
    }
    let rot = t.below(BATTERY.len());
    let got = battery(&mut h, rot);
    let want = battery(&mut f, rot);
    if got != want {
        return Outcome::fail(if use_new { "state-after-new-differs-from-fresh" } else { "state-after-clear-differs-from-fresh" }, format!("after the prefix and {}:\n{}\n--- fresh interpreter:\n{}", cmd, got, want), case);
    }
    let mut labels = pre.dirty.clone();
    labels.push(if use_new { "NEW" } else { "CLEAR" });
    if faulty {
        labels.push("the stored program does not compile");
    }
    let o2 = Outcome::pass(!pre.dirty.is_empty(), hash_str(&case)).with_labels(labels);
    if ctx.render {
        o2.with_case(case)
    } else {
        o2
    }
}

pub fn property() -> Property {
    Property {
        id: "C12",
        rule: "Cases: (the final run may also be RUN \"file\" after a prefix that typed TRON; NEW may be a statement of the stored program with statements behind it; the host may hold a get_listing() result while CLEAR / NEW run) a proptest-generated listing P and a session prefix of 1-6 steps: earlier runs of P with other replies that end normally, in an error, at STOP, or are interrupted after k calls; direct statements assigning P's variables, loop and fuel counters, DIM of P's arrays, DEFINT/STR/DBL/SNG, partial READs, FOR without NEXT (nested), direct GOSUB into P's subroutines, RND(-k), ERASE; \
in a third of the cases the interpreter first held a different program that was run and then replaced (NEW + retype, or line-by-line deletion). (run) then RUN or RUN n: transcript and final variables must equal those in a fresh interpreter holding P. \
(clear_new) then CLEAR (also with ignored options) or NEW, followed by a probe battery (print every name, DIM every array again, store 1.5 into A / S / X / Z to expose DEFtype leftovers, READ, RETURN, NEXT, NEXT I, CONT, FNx calls): identical to a fresh interpreter holding P (resp. an empty one); after NEW, LIST and RUN print nothing and a small program with DATA typed afterwards is read from its first constant without an intervening RUN. \
Non-trivial: the prefix left at least one of: non-default variables, a DEFtype, a DIM, pending frames, an advanced DATA pointer, an interrupted/failed run. Distinct by listing + prefix.",
        assumptions: vec!["differential oracle: a reset defect shared with the fresh interpreter cannot exist by definition; TRON is not part of the reset list and is never left on by a prefix", "RND is only reseeded, never read (its values are not deterministic after RUN/CLEAR)"],
        subs: vec![Sub::tape("run_after_prefix", check_run, 30_000, 1_000_000, 1600), Sub::tape("clear_new_battery", check_clear_new, 30_000, 1_000_000, 1400)],
    }
}
