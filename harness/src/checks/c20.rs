//! C20 — branches resolve by line number, independent of program layout.
//! Metamorphic oracle: transcript(P) == transcript(T(P)) after mapping reported line numbers.

use crate::bast::*;
use crate::checks::c14::renumber;
use crate::drive::{flat, has_panic, End, Opts, Term};
use crate::expr::*;
use crate::gen::{self, GenOpts, Generated};
use crate::runner::{Ctx, Outcome, Property, Sub};
use crate::tape::{hash_str, Tape};
use std::collections::HashMap;

fn run_prog(texts: &[String], replies: &[String], tron: bool, probes: &[String]) -> Option<(String, String)> {
    run_prog_staged(texts, &[], replies, tron, probes, "RUN")
}

/// Like run_prog, but the lines of `later` are typed after the rest has been compiled once
/// (a direct statement in between forces the compile).
fn run_prog_staged(texts: &[String], later: &[String], replies: &[String], tron: bool, probes: &[String], cmd: &str) -> Option<(String, String)> {
    let mut term = Term::new();
    let mut o = Opts::default();
    o.replies = replies.iter().cloned().collect();
    // (a run entered in the middle may not terminate: a small budget is enough to compare)
    o.max_calls = if cmd == "RUN" { 5000 } else { 300 };
    for l in texts {
        term.enter_raw(l);
        term.run(&mut o);
    }
    if !later.is_empty() {
        term.line("Q0=0", &mut o);
        for l in later {
            term.enter_raw(l);
            term.run(&mut o);
        }
    }
    if !term.take().is_empty() {
        return None;
    }
    if tron {
        term.line("TRON", &mut o);
        term.take();
    }
    let end = term.line(cmd, &mut o);
    let evs = term.take();
    if end != End::Stopped || has_panic(&evs).is_some() {
        return Some((format!("{}«{:?}»", flat(&evs), end), String::new()));
    }
    if tron {
        term.line("TROFF", &mut o);
        term.take();
    }
    let mut fin = String::new();
    for p in probes {
        term.line(p, &mut o);
        fin.push_str(&flat(&term.take()));
    }
    Some((flat(&evs), fin))
}

fn map_back(text: &str, back: &HashMap<u16, u16>) -> String {
    let b: Vec<char> = text.chars().collect();
    let mut out = String::new();
    let mut i = 0;
    while i < b.len() {
        let trace = b[i] == '[';
        let inn = i + 4 <= b.len() && b[i..i + 4].iter().collect::<String>() == " IN ";
        if trace || inn {
            let start = if trace { i + 1 } else { i + 4 };
            let mut j = start;
            while j < b.len() && b[j].is_ascii_digit() {
                j += 1;
            }
            if j > start {
                let n: u32 = b[start..j].iter().collect::<String>().parse().unwrap_or(99999);
                let m = if n <= 65535 { back.get(&(n as u16)).map(|x| *x as u32).unwrap_or(n) } else { n };
                out.extend(b[i..start].iter());
                out.push_str(&m.to_string());
                i = j;
                continue;
            }
        }
        out.push(b[i]);
        i += 1;
    }
    out
}

fn probes_text(g: &Generated) -> Vec<String> {
    g.probes
        .chunks(6)
        .map(|c| {
            let mut items = vec![];
            for e in c {
                items.push(PItem::Expr(e.clone()));
                items.push(PItem::Semi);
                items.push(PItem::Expr(E::Str("|".into())));
                items.push(PItem::Semi);
            }
            render_stmts(&[Stmt::Print(items)])
        })
        .collect()
}

fn referenced(p: &Program) -> Vec<u16> {
    let mut v = vec![];
    for l in &p.lines {
        walk(&l.stmts, &mut |s| {
            if !matches!(s, Stmt::If { .. }) {
                v.extend(refs_of(s))
            }
        });
        for s in &l.stmts {
            if let Stmt::If { then_, else_, .. } = s {
                if let Arm::Line(n) = then_ {
                    v.push(*n)
                }
                if let Some(Arm::Line(n)) = else_ {
                    v.push(*n)
                }
            }
        }
    }
    v
}

fn ends_unconditionally(l: &Line) -> bool {
    matches!(l.stmts.last(), Some(Stmt::End) | Some(Stmt::Goto(_)) | Some(Stmt::Return))
}

struct Transformed {
    prog: Program,
    back: HashMap<u16, u16>,
    kinds: Vec<&'static str>,
    moved_before: Option<u16>,
}

/// Applies layout transformations. The program is first renumbered sparsely so that there is
/// room; `back` maps every line number of the result to the original line it stems from.
fn transform(t: &mut Tape, p: &Program, allow_split: bool) -> Option<Transformed> {
    let dense = t.chance(1, 6);
    let (start, step) = if dense { (t.below(3) as u32, 1) } else { (*t.pick(&[10u32, 100, 5, 1000]), *t.pick(&[10u32, 20, 7, 100])) };
    let (q, map) = renumber(p, start, 0, step)?;
    let mut back: HashMap<u16, u16> = map.iter().map(|(old, new)| (*new, *old)).collect();
    let mut kinds = vec![if dense { "renumbered densely" } else { "renumbered sparsely" }];
    let mut lines = q.lines.clone();
    let mut first_change: Option<u16> = None;
    if !dense {
        let n = 1 + t.below(5);
        for _ in 0..n {
            if lines.is_empty() {
                break;
            }
            let i = t.below(lines.len());
            let here = lines[i].num;
            let next = lines.get(i + 1).map(|l| l.num as u32).unwrap_or(65530);
            let free = if next > here as u32 + 1 { Some((here as u32 + 1 + t.below(((next - here as u32 - 1).min(5)) as usize) as u32) as u16) } else { None };
            match t.below(if allow_split { 4 } else { 3 }) {
                0 => {
                    // a remark line (before line i+1)
                    if let Some(f) = free {
                        let s = if t.chance(1, 2) { Stmt::Rem { tick: false, text: " inserted é".into() } } else { Stmt::Rem { tick: true, text: "GOTO 10".into() } };
                        lines.insert(i + 1, Line { num: f, stmts: vec![s] });
                        kinds.push("remark line inserted");
                        first_change = Some(first_change.map_or(f, |x| x.min(f)));
                    }
                }
                1 => {
                    // empty statements
                    let l = &mut lines[i];
                    if !l.stmts.iter().any(|s| matches!(s, Stmt::Rem { .. })) || t.chance(1, 2) {
                        let at = t.below(l.stmts.len() + 1);
                        // not behind a remark (it would become remark text)
                        if !l.stmts[..at].iter().any(|s| matches!(s, Stmt::Rem { .. })) && !l.stmts[..at].iter().any(|s| matches!(s, Stmt::If { .. })) {
                            l.stmts.insert(at, Stmt::Empty);
                            if t.chance(1, 2) {
                                l.stmts.insert(at, Stmt::Empty);
                            }
                            kinds.push("empty statements inserted");
                            first_change = Some(first_change.map_or(l.num, |x| x.min(l.num)));
                        }
                    }
                }
                2 => {
                    // an unreachable line behind END / GOTO / RETURN
                    if ends_unconditionally(&lines[i]) {
                        if let Some(f) = free {
                            let s: Vec<Stmt> = match t.below(4) {
                                0 => vec![Stmt::Print(vec![PItem::Expr(E::Str("UNREACHABLE".into()))])],
                                1 => vec![Stmt::Let { lv: Lval::Var(Name::new("A")), e: E::Lit("99".into()), kw: false }, Stmt::Gosub(lines[0].num)],
                                2 => vec![Stmt::For { v: Name::new("U9"), from: E::Lit("1".into()), to: E::Lit("2".into()), step: None }, Stmt::Next(vec![])],
                                _ => vec![Stmt::While(E::Lit("1".into())), Stmt::Wend, Stmt::Stop],
                            };
                            lines.insert(i + 1, Line { num: f, stmts: s });
                            kinds.push("unreachable line inserted");
                            first_change = Some(first_change.map_or(f, |x| x.min(f)));
                        }
                    }
                }
                _ => {
                    // split a multi-statement line where no IF / REM precedes the split point
                    let l = lines[i].clone();
                    if l.stmts.len() >= 2 {
                        if let Some(f) = free {
                            let at = 1 + t.below(l.stmts.len() - 1);
                            if !l.stmts[..at].iter().any(|s| matches!(s, Stmt::If { .. } | Stmt::Rem { .. })) {
                                let head: Vec<Stmt> = l.stmts[..at].to_vec();
                                let tail: Vec<Stmt> = l.stmts[at..].to_vec();
                                if !render_stmts(&head).is_empty() && !render_stmts(&tail).is_empty() {
                                    lines[i].stmts = head;
                                    lines.insert(i + 1, Line { num: f, stmts: tail });
                                    let orig = *back.get(&l.num).unwrap_or(&l.num);
                                    back.insert(f, orig);
                                    kinds.push("multi-statement line split");
                                    first_change = Some(first_change.map_or(f, |x| x.min(f)));
                                }
                            }
                        }
                    }
                }
            }
        }
    }
    Some(Transformed { prog: Program { lines }, back, kinds, moved_before: first_change })
}

fn check_layout(t: &mut Tape, ctx: &Ctx) -> Outcome {
    let mut o = GenOpts::full();
    o.stop = false;
    o.tron = false;
    let tron = t.chance(1, 3);
    if tron {
        o.fns = false;
        // the width of `[n]` moves the cursor: column-dependent output would depend on the numbering
        o.layout_dep = false;
    }
    let mut g = gen::program(t, &o);
    // under TRON the implicit END is traced as the last line, which an inserted line would move:
    // such programs get an explicit END
    if tron && g.prog.lines.last().map(|l| l.stmts != vec![Stmt::End]).unwrap_or(false) {
        let n = g.prog.lines.last().map(|l| l.num).unwrap_or(0);
        if n < 65000 {
            g.prog.lines.push(Line { num: n + 1, stmts: vec![Stmt::End] });
        } else {
            return Outcome::discard("no room for an explicit END behind the last line");
        }
    }
    let probes = probes_text(&g);
    let texts = g.prog.texts();
    let tr = match transform(t, &g.prog, !tron) {
        Some(x) => x,
        None => return Outcome::discard("renumbering not possible"),
    };
    let texts2 = tr.prog.texts();
    let case = format!("{}\n--- transformed ({}):\n{}\nreplies: {:?} tron: {}", texts.join("\n"), tr.kinds.join(", "), texts2.join("\n"), g.replies, tron);
    crate::runner::note_case(&case);
    if let Err(e) = super::c01::printer_guard(&tr.prog) {
        return Outcome::fail(&e.0, e.1, case);
    }
    let a = match run_prog(&texts, &g.replies, tron, &probes) {
        Some(x) => x,
        None => return Outcome::discard("program entry printed something"),
    };
    if a.0.contains("«Budget»") {
        return Outcome::discard("program does not finish");
    }
    let b = match run_prog(&texts2, &g.replies, tron, &probes) {
        Some(x) => x,
        None => return Outcome::fail("transformed-program-entry-printed", "typing the transformed program printed something".into(), case),
    };
    let b_mapped = map_back(&b.0, &tr.back);
    if a.0 != b_mapped {
        return Outcome::fail("layout-changed-behaviour", format!("original:\n{}\n--- transformed (line numbers mapped back):\n{}", a.0, b_mapped), case);
    }
    if a.1 != b.1 {
        return Outcome::fail("layout-changed-final-state", format!("original: {:?}\ntransformed: {:?}", a.1, b.1), case);
    }
    // the same layout reached by editing: the inserted whole lines are typed after a compile
    let (first, later): (Vec<&Line>, Vec<&Line>) = tr.prog.lines.iter().partition(|l| tr.back.contains_key(&l.num));
    if !later.is_empty() {
        let f: Vec<String> = first.iter().map(|l| render_line(l).text).collect();
        let l2: Vec<String> = later.iter().map(|l| render_line(l).text).collect();
        // ... and an inserted line is a branch target like any other: RUN n reaches it
        let n = later[t.below(later.len())].num;
        let cmd = format!("RUN {}", n);
        let b_n = run_prog_staged(&texts2, &[], &g.replies, tron, &probes, &cmd);
        let c_n = run_prog_staged(&f, &l2, &g.replies, tron, &probes, &cmd);
        if b_n != c_n {
            return Outcome::fail(
                "layout-reached-by-editing-differs",
                format!("{} with the transformed program typed in one go:\n{:?}\n--- with the inserted lines {:?} typed after a compile:\n{:?}", cmd, b_n, l2, c_n),
                case,
            );
        }
        match run_prog_staged(&f, &l2, &g.replies, tron, &probes, "RUN") {
            Some(c) => {
                if c != b {
                    return Outcome::fail(
                        "layout-reached-by-editing-differs",
                        format!("transformed program typed in one go:\n{}\n--- the inserted lines {:?} typed after a compile:\n{}", b.0, l2, c.0),
                        case,
                    );
                }
            }
            None => return Outcome::fail("transformed-program-entry-printed", "typing the transformed program in two stages printed something".into(), case),
        }
    }
    // non-trivial: something was inserted/split before a line that is a jump target
    let refs: Vec<u16> = referenced(&tr.prog);
    let nt = match tr.moved_before {
        Some(m) => refs.iter().any(|r| *r > m),
        None => false,
    } || tr.kinds.len() == 1 && !refs.is_empty();
    let o2 = Outcome::pass(nt, hash_str(&case)).with_labels(tr.kinds.clone());
    if ctx.render {
        o2.with_case(case)
    } else {
        o2
    }
}

// ------------------------------------------------------------------ direct statements vs program in memory

fn run_direct(prog: &[String], directs: &[String]) -> Option<String> {
    let mut term = Term::new();
    let mut o = Opts::default();
    o.max_calls = 4000;
    o.files.insert("F".to_string(), "10 PRINT \"CHAINED\";A;B$\n20 A=3".to_string());
    for l in prog {
        term.enter_raw(l);
        term.run(&mut o);
    }
    if !term.take().is_empty() {
        return None;
    }
    let mut s = String::new();
    for d in directs {
        let end = term.line(d, &mut o);
        s.push_str(&flat(&term.take()));
        if end != End::Stopped {
            s.push_str("«not stopped»");
        }
    }
    Some(s)
}

fn check_direct_vs_program(t: &mut Tape, ctx: &Ctx) -> Outcome {
    let o = GenOpts::full();
    let d1 = render_stmts(&gen::direct_list(t, &o));
    let d2 = render_stmts(&gen::direct_list(t, &o));
    // (a loop that starts the direct line jumps back to the very first direct instruction)
    let directs = vec![d1, d2, "WHILE W9<2:W9=W9+1:PRINT W9;:WEND:PRINT".to_string(), "PRINT A;B;C;A%;B%;A#;X;Y%;A$;B$;S$;I;J%;K".to_string()];
    let p1 = if t.chance(1, 4) { vec![] } else { gen::program(t, &GenOpts::plain()).prog.texts() };
    let p2 = if t.chance(1, 4) { vec![] } else { gen::program(t, &GenOpts::full()).prog.texts() };
    let case = format!("direct lines:\n{}\n--- with program 1 in memory:\n{}\n--- with program 2 in memory:\n{}", directs.join("\n"), p1.join("\n"), p2.join("\n"));
    crate::runner::note_case(&case);
    let a = run_direct(&p1, &directs);
    let b = run_direct(&p2, &directs);
    let c = run_direct(&[], &directs);
    // a program that does not link is a program in memory too: direct lines that stay inside
    // themselves must not notice it
    let mut p3 = p1.clone();
    p3.push(t.pick(&["65001 GOTO 64999", "65001 WHILE 1", "65001 PRINT )", "65001 WEND"]).to_string());
    let d = run_direct(&p3, &directs);
    if let (Some(d), Some(c)) = (&d, &c) {
        if d != c {
            return Outcome::fail("direct-statement-depends-on-program", format!("no program: {:?}
program 1 plus a line with a compile-time error ({}):  {:?}", c, p3.last().unwrap(), d), case);
        }
    }
    match (a, b, c) {
        (Some(a), Some(b), Some(c)) => {
            if a != c || b != c {
                return Outcome::fail("direct-statement-depends-on-program", format!("no program: {:?}\nprogram 1:  {:?}\nprogram 2:  {:?}", c, a, b), case);
            }
            let o2 = Outcome::pass(p1.len() != p2.len(), hash_str(&case));
            if ctx.render {
                o2.with_case(case)
            } else {
                o2
            }
        }
        _ => Outcome::discard("program entry printed something"),
    }
}

fn check_direct_vs_oneline(t: &mut Tape, ctx: &Ctx) -> Outcome {
    let mut o = GenOpts::full();
    o.errors = t.chance(1, 3);
    let stmts = gen::direct_list(t, &o);
    let mut d = render_stmts(&stmts);
    // requests to the host are statements like any other: chaining to a file, clearing the screen
    if t.chance(1, 8) && !d.contains("REM") && !d.contains('\'') {
        d = format!("{}:{}", d, t.pick(&["RUN \"F\"", "CLS:PRINT 1", "RUN \"NOSUCH\"", "RUN \"F\":PRINT \"NOT REACHED\""]));
    }
    if d.len() > 900 {
        return Outcome::discard("too long");
    }
    let probe = "PRINT A;B;C;A%;B%;A#;X;Y%;A$;B$;S$;I;J%;K".to_string();
    let case = format!("direct: {}\nprogram: 10 {}", d, d);
    crate::runner::note_case(&case);
    let a = run_direct(&[], &[d.clone(), probe.clone()]);
    let b = run_direct(&[format!("10 {}", d)], &["RUN".to_string(), probe]);
    match (a, b) {
        (Some(a), Some(b)) => {
            let b2 = b.replace(" IN 10", "");
            if a != b2 {
                return Outcome::fail("direct-differs-from-one-line-program", format!("direct: {:?}\nas 10 ...:RUN: {:?}", a, b), case);
            }
            let nt = stmts.iter().any(|s| matches!(s, Stmt::For { .. } | Stmt::If { .. }));
            let o2 = Outcome::pass(nt, hash_str(&case));
            if ctx.render {
                o2.with_case(case)
            } else {
                o2
            }
        }
        _ => Outcome::discard("entry printed something"),
    }
}

// ------------------------------------------------------------------ the last statement of the program

/// Whatever statement closes the stored program, a trailing remark line or an explicit END
/// behind it changes nothing: control that leaves the last statement ends the run.
fn check_last_statement(t: &mut Tape, ctx: &Ctx) -> Outcome {
    let sel = *t.pick(&["0", "1", "2", "3", "-0", "2.6"]);
    let last = match t.below(12) {
        0 => format!("ON {} GOTO 10,18", sel),
        1 => format!("X={}:ON X GOTO 18", sel),
        2 => format!("ON {} GOSUB 10", sel),
        3 => "IF A=1 THEN PRINT \"T\"".to_string(),
        4 => "IF A=1 THEN 10".to_string(),
        5 => "IF A=0 THEN PRINT \"T\" ELSE PRINT \"F\"".to_string(),
        6 => "FOR I=1 TO 2:PRINT I;:NEXT".to_string(),
        7 => "W=0:WHILE W<2:W=W+1:PRINT W;:WEND".to_string(),
        8 => "IF K<2 THEN K=K+1:GOSUB 10".to_string(),
        9 => "PRINT \"L\";:IF K<1 THEN K=K+1:GOTO 18".to_string(),
        10 => "IF K<1 THEN K=K+1:ON 1 GOTO 18".to_string(),
        _ => "K=K+1:IF K<3 THEN ON K GOTO 18,18".to_string(),
    };
    let prog: Vec<String> = vec!["5 GOTO 18".to_string(), "10 PRINT \"S\";:IF K>0 THEN RETURN".to_string(), "15 K=K+1:IF K<2 THEN 18 ELSE END".to_string(), "18 F=F+1:IF F>3 THEN END".to_string(), format!("20 {}", last)];
    let direct = vec![t.pick(&["RUN", "K=0:A=0:GOTO 5", "RUN 20", "A=1:GOTO 20", "RUN 18"]).to_string(), "PRINT \"|\";K;A;F".to_string()];
    let mut p_rem = prog.clone();
    p_rem.push("30 REM trailer".to_string());
    let mut p_end = prog.clone();
    p_end.push("30 END".to_string());
    let case = format!("{}\n> {}\n> {}", prog.join("\n"), direct[0], direct[1]);
    crate::runner::note_case(&case);
    let a = run_direct(&prog, &direct);
    let b = run_direct(&p_rem, &direct);
    let c = run_direct(&p_end, &direct);
    match (a, b, c) {
        (Some(a), Some(b), Some(c)) => {
            if a != b || a != c {
                return Outcome::fail("layout-changed-behaviour", format!("program as shown: {:?}\nwith 30 REM trailer behind it: {:?}\nwith 30 END behind it: {:?}", a, b, c), case);
            }
            let o2 = Outcome::pass(true, hash_str(&case));
            if ctx.render {
                o2.with_case(format!("{}\n=> {:?}", case, a))
            } else {
                o2
            }
        }
        _ => Outcome::discard("program entry printed something"),
    }
}

pub fn property() -> Property {
    Property {
        id: "C20",
        rule: "Cases: proptest-generated programs of the fragment x layout transformations T: sparse or dense renumbering, remark lines (REM and ') inserted anywhere, empty statements (::) inserted, unreachable lines (PRINT, GOSUB, FOR/NEXT, WHILE/WEND) inserted behind END/GOTO/RETURN, multi-statement lines split where no IF or REM precedes the split point; \
with TRON in a third of the cases (no splitting then). Oracle (metamorphic): transcript and final variables of T(P) equal those of P after mapping the line numbers in `IN n` and `[n]` back (the parts of a split line map to the original line). \
(direct_vs_program) two generated direct lines run with no program, a small and a large program in memory: identical transcripts. (direct_vs_oneline) a statement list as a direct line vs as `10 <list>` + RUN: identical up to ` IN 10`. \
Non-trivial: something was inserted or split in front of a line that is a jump target (its code address changed) / the two programs differ in size / the list contains FOR or IF. Distinct by case text.",
        assumptions: vec!["metamorphic oracle on the same implementation: a layout-independent defect is invisible here (C01 covers those)", "the reference renumberer of C14 provides the sparse/dense renumbering"],
        subs: vec![
            Sub::tape("layout_transforms", check_layout, 40_000, 1_500_000, 1000),
            Sub::tape("direct_vs_program", check_direct_vs_program, 15_000, 500_000, 1400),
            Sub::tape("direct_vs_oneline", check_direct_vs_oneline, 30_000, 1_000_000, 400),
            Sub::tape("last_statement", check_last_statement, 500, 3_000, 8),
        ],
    }
}
