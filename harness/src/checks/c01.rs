//! C01 — compiled execution follows the documented control-flow semantics.
//! Oracle: the reference interpreter (model.rs) on the harness-side program gives the
//! prescribed transcript; the implementation must produce the same one.

use crate::bast::*;
use crate::drive::{flat, has_panic, Ev, Opts, Term};
use crate::expr::*;
use crate::gen::{self, GenOpts, Generated};
use crate::model::{same_transcript, Halt, Machine};
use crate::runner::{Ctx, Outcome, Property, Sub};
use crate::tape::{hash_str, Tape};

pub struct Script {
    /// direct lines entered after the program was typed in
    pub directs: Vec<Vec<Stmt>>,
}

/// Runs program + direct lines on both sides. Ok(labels, nontrivial) or Err(clause, detail).
pub fn compare(g: &Generated, directs: &[Vec<Stmt>], quantum: usize) -> Result<(Vec<&'static str>, bool), Result<&'static str, (String, String)>> {
    // ---- model
    let mut m = Machine::new(&g.prog);
    m.replies = g.replies.iter().cloned().collect();
    let mut model_tr: Vec<Vec<Ev>> = vec![];
    for d in directs {
        let h = m.direct_line(d);
        model_tr.push(std::mem::take(&mut m.out));
        if h == Halt::Budget {
            return Err(Ok("model step budget exceeded"));
        }
        if let Some(u) = m.undefined {
            let _ = u;
            return Err(Ok("outside the well-defined fragment"));
        }
        if !m.uncertain.is_empty() {
            return Err(Ok("DEFtype with variables of other letters already stored (left open by the manual)"));
        }
    }
    if m.flags.fuzzy_eq {
        return Err(Ok("float equality inside the undocumented tolerance / NaN comparison"));
    }
    if m.flags.approx {
        return Err(Ok("transcendental result (compared only in C02)"));
    }
    // ---- guard: the canonical text of every line means what the tree says, and lists as itself
    if let Err(e) = printer_guard(&g.prog) {
        return Err(Err(e));
    }
    // ---- implementation
    let mut term = Term::new();
    let mut o = Opts::default();
    o.quantum = quantum;
    // every PRINT item and every trace ends an execute call: tie the budget to the model's step count
    o.max_calls = if quantum < 64 { m.steps * 400 + 20_000 } else { m.steps * 40 + 4000 };
    o.replies = g.replies.iter().cloned().collect();
    for l in g.prog.texts() {
        term.enter_raw(&l);
        term.run(&mut o);
    }
    let pre = term.take();
    if !pre.is_empty() {
        return Err(Err(("program-entry-printed".into(), format!("typing the program printed {:?}", flat(&pre)))));
    }
    for (i, d) in directs.iter().enumerate() {
        let text = render_stmts(d);
        let end = term.line(&text, &mut o);
        let got = term.take();
        if let Some(p) = has_panic(&got) {
            return Err(Err(("panic".into(), p)));
        }
        if end == crate::drive::End::Budget {
            return Err(Err((
                "implementation-did-not-terminate".into(),
                format!("direct line {:?}: the model finished in {} steps, the implementation was still running after {} execute calls", text, m.steps, o.max_calls),
            )));
        }
        if !same_transcript(&model_tr[i], &got) {
            return Err(Err((
                "transcript".into(),
                format!(
                    "after direct line {:?}\n--- prescribed by statement-by-statement interpretation:\n{}\n--- implementation:\n{}\n--- as events:\n{:?}\n{:?}",
                    text,
                    flat(&model_tr[i]),
                    flat(&got),
                    model_tr[i],
                    got
                ),
            )));
        }
    }
    let h = &m.hits;
    let mut labels: Vec<&'static str> = vec![];
    if h.next_discarded_inner {
        labels.push("NEXT discarded an inner frame");
    }
    if h.return_discarded_for {
        labels.push("RETURN discarded FOR frames");
    }
    if h.on_out_of_range {
        labels.push("ON selector out of range");
    }
    if h.else_taken {
        labels.push("condition false (ELSE / skip)");
    }
    if h.error_end.is_some() {
        labels.push("run ended in an error");
    }
    if h.fn_calls > 0 {
        labels.push("user function called");
    }
    if h.inputs > 0 {
        labels.push("INPUT reply consumed");
    }
    if h.redo > 0 {
        labels.push("REDO FROM START");
    }
    if h.reads > 0 {
        labels.push("READ");
    }
    if h.while_iter > 0 {
        labels.push("WHILE iterated");
    }
    if h.for_iter > 0 {
        labels.push("FOR iterated");
    }
    if h.gosubs > 0 {
        labels.push("GOSUB");
    }
    if h.stop_cont > 0 {
        labels.push("CONT resumed");
    }
    Ok((labels, (h.lines_executed >= 2 || g.prog.lines.is_empty() || h.lines_executed == 0) && h.transfers >= 1))
}

/// The parser's reading of the canonical text equals the harness tree (column-free), and the
/// lister reproduces the text. A mismatch is either a harness bug or a parser/lister defect; it
/// is never silently discarded.
pub fn printer_guard(p: &Program) -> Result<(), (String, String)> {
    for l in &p.lines {
        let r = render_line(l);
        let want = crate::bastnorm::stmts(&l.stmts);
        let line = basic::lang::Line::new(&r.text);
        match crate::astnorm::meaning(&line) {
            Ok(got) => {
                if got != want {
                    return Err(("parse-differs-from-tree".into(), format!("line {:?}\n  parser: {}\n  tree:   {}", r.text, got, want)));
                }
            }
            Err(e) => return Err(("canonical-line-rejected".into(), format!("line {:?} is rejected: {}", r.text, e))),
        }
        let listed = line.to_string();
        if listed != r.text {
            return Err(("canonical-text-not-listed-verbatim".into(), format!("line {:?} lists as {:?}", r.text, listed)));
        }
    }
    Ok(())
}

fn probes_lines(g: &Generated) -> Vec<Vec<Stmt>> {
    // several probes per direct line, `;`-separated
    let mut v = vec![];
    for chunk in g.probes.chunks(6) {
        let mut items = vec![];
        for (i, e) in chunk.iter().enumerate() {
            if i > 0 {
                items.push(PItem::Semi);
            }
            items.push(PItem::Expr(e.clone()));
            items.push(PItem::Semi);
            items.push(PItem::Expr(E::Str("|".into())));
        }
        v.push(vec![Stmt::Print(items)]);
    }
    v
}

fn case_text(g: &Generated, directs: &[Vec<Stmt>]) -> String {
    let mut s = g.prog.text();
    s.push('\n');
    for d in directs.iter() {
        s.push_str(&format!("> {}\n", render_stmts(d)));
    }
    if !g.replies.is_empty() {
        s.push_str(&format!("replies: {:?}\n", g.replies));
    }
    s
}

fn finish(r: Result<(Vec<&'static str>, bool), Result<&'static str, (String, String)>>, case: String, ctx: &Ctx) -> Outcome {
    match r {
        Ok((labels, nt)) => {
            let o = Outcome::pass(nt, hash_str(&case)).with_labels(labels);
            if ctx.render {
                o.with_case(case)
            } else {
                o
            }
        }
        Err(Ok(why)) => Outcome::discard(why),
        Err(Err((c, d))) => Outcome::fail(&c, d, case),
    }
}

fn check_program(t: &mut Tape, ctx: &Ctx) -> Outcome {
    let mut o = GenOpts::full();
    o.stop = t.chance(1, 4);
    o.errors = t.chance(1, 2);
    let tron = t.chance(1, 4);
    o.tron = tron && t.chance(1, 2);
    if tron {
        // whether evaluating a user function "enters" the DEF line is not documented
        o.fns = false;
    }
    let g = gen::program(t, &o);
    let mut directs: Vec<Vec<Stmt>> = vec![];
    if tron {
        directs.push(vec![Stmt::Tron]);
    }
    let nums = g.prog.line_numbers();
    if t.chance(1, 8) && !nums.is_empty() {
        let n = nums[t.below(nums.len())];
        directs.push(vec![Stmt::Run(Some(n))]);
    } else {
        directs.push(vec![Stmt::Run(None)]);
    }
    if o.stop {
        // CONT after an error is outside the statement: find out how the run ends first
        let n = 1 + t.below(3);
        for _ in 0..n {
            let mut probe = Machine::new(&g.prog);
            probe.replies = g.replies.iter().cloned().collect();
            let mut err = false;
            for d in &directs {
                probe.direct_line(d);
                err |= probe.hits.error_end.is_some() || probe.undefined.is_some() || probe.hits.starved;
            }
            if err {
                break;
            }
            directs.push(vec![Stmt::Cont]);
        }
    }
    // a subroutine of the program called twice from one direct line (under TRON each entry into a
    // numbered line is traced, also when only direct code ran in between)
    let mut subs: Vec<u16> = vec![];
    for l in &g.prog.lines {
        walk(&l.stmts, &mut |s| {
            if let Stmt::Gosub(n) = s {
                subs.push(*n)
            }
        });
    }
    subs.sort();
    subs.dedup();
    if !subs.is_empty() && !o.stop && t.chance(1, 3) {
        let s1 = subs[t.below(subs.len())];
        let s2 = if t.chance(1, 2) { s1 } else { subs[t.below(subs.len())] };
        directs.push(vec![Stmt::Gosub(s1), Stmt::Gosub(s2)]);
    }
    if tron {
        directs.push(vec![Stmt::Troff]);
    }
    directs.extend(probes_lines(&g));
    let quantum = *t.pick(&[5000usize, 5000, 1, 7, 64]);
    let case = case_text(&g, &directs);
    crate::runner::note_case(&case);
    finish(compare(&g, &directs, quantum), case, ctx)
}

fn check_direct(t: &mut Tape, ctx: &Ctx) -> Outcome {
    // a statement list in direct mode, with a program of any size in memory
    let mut o = GenOpts::full();
    o.errors = t.chance(1, 3);
    o.tron = false;
    let with_prog = t.chance(1, 2);
    let mut g = if with_prog {
        gen::program(t, &GenOpts::plain())
    } else {
        Generated { prog: Program::default(), replies: vec![], probes: vec![] }
    };
    g.replies.clear();
    let d = gen::direct_list(t, &o);
    let mut directs = vec![d];
    if t.chance(1, 3) {
        let d2 = gen::direct_list(t, &o);
        directs.push(d2);
    }
    let probes: Vec<E> = ["A", "B", "C", "A%", "B%", "A#", "B!", "X", "Y%", "Z#", "A$", "B$", "S$", "I", "J%", "K"].iter().map(|v| E::Var(Name::new(v))).collect();
    let gp = Generated { prog: Program::default(), replies: vec![], probes };
    directs.extend(probes_lines(&gp));
    let case = case_text(&g, &directs);
    crate::runner::note_case(&case);
    finish(compare(&g, &directs, 5000), case, ctx)
}

// ------------------------------------------------------------------ corpus from the manual

const MANUAL: &[(&str, &str)] = &[
    ("10 FOR I=1 TO 7 STEP 2\n20 PRINT \"HELLO WORLD\";I\n30 NEXT I\nRUN", "HELLO WORLD 1 \nHELLO WORLD 3 \nHELLO WORLD 5 \nHELLO WORLD 7 \n"),
    ("10 FOR X=1 TO 2\n20 FOR Y=5 TO 6\n30 PRINT X;Y\n40 NEXT Y,X\nRUN", " 1  5 \n 1  6 \n 2  5 \n 2  6 \n"),
    ("10 GOSUB 100\n20 PRINT \"WORLD\"\n90 END\n100 PRINT \"HELLO \";\n110 RETURN\nRUN", "HELLO WORLD\n"),
    ("10 A=10\n20 IF A<30 THEN PRINT A:GOSUB 100:GOTO 20\n90 END\n100 A=A+10:RETURN\nRUN", " 10 \n 20 \n"),
    ("10 FOR I = 1 TO 3\n20 TROFF:IF I = 2 THEN TRON\n30 PRINT I\n40 NEXT I\nRUN", " 1 \n[30] 2 \n[40][20] 3 \n"),
    ("10 READ A$\n20 WHILE A$ <> \"END\"\n30 PRINT A$;\n40 READ A$\n50 WEND\n60 DATA \"S\",\"T\",\"A\",\"S\",\"I\",\"S\",\"END\"\nRUN", "STASIS\n"),
    ("10 FOR I=1 TO 5\n20 READ A$: PRINT A$;:RESTORE 110\n30 NEXT\n100 DATA \"HELLO\"\n110 DATA \".\"\nRUN", "HELLO....\n"),
    ("10 STOP\nRUN", "?BREAK IN 10\n"),
    ("10 PRINT \"HELLO\"\n20 END\n30 PRINT \"WORLD\"\nRUN\nCONT", "HELLO\nWORLD\n"),
    ("10 GOTO 30\n20 PRINT \"THIS WILL NOT PRINT\"\n30 PRINT \"THIS WILL PRINT\"\nRUN", "THIS WILL PRINT\n"),
    ("10 GOSUB 100\n20 PRINT \"B\"\n30 END\n100 ON 3 GOSUB 200,300\n110 PRINT \"A\"\n120 RETURN\n200 RETURN\n300 RETURN\nRUN", "A\nB\n"),
    ("10 FOR I=1 TO 3\n20 FOR J=1 TO 3\n30 PRINT I;J\n40 NEXT I\nRUN", " 1  1 \n 2  1 \n 3  1 \n"),
    ("10 GOSUB 100\n20 PRINT \"BACK\"\n30 END\n100 FOR I=1 TO 3\n110 IF I=2 THEN RETURN\n120 NEXT\nRUN\nPRINT I", "BACK\n 2 \n"),
    ("10 I=9:FOR I=5 TO I+2:PRINT I;:NEXT\nRUN", " 5  6  7 \n"),
    ("10 FOR I=3 TO 1:PRINT I:NEXT\nRUN", " 3 \n"),
    ("10 IF 1 THEN IF 0 THEN PRINT 1 ELSE PRINT 2\n20 IF 0 THEN IF 0 THEN PRINT 3 ELSE PRINT 4\n30 IF 0 THEN IF 1 THEN PRINT 5 ELSE ELSE PRINT 6\nRUN", " 2 \n 6 \n"),
    ("10 A%=1:ON A% GOTO 30,40\n20 PRINT \"F\"\n30 PRINT \"T\"\n40 PRINT \"U\"\nRUN", "T\nU\n"),
    ("10 PRINT 1\n20 A%=32767+1\n30 PRINT 2\nRUN", " 1 \n?OVERFLOW IN 20\n"),
];

fn gen_manual(part: usize, parts: usize, _th: bool, emit: &mut dyn FnMut(&str)) {
    for (i, (p, _)) in MANUAL.iter().enumerate() {
        if i % parts == part {
            emit(p);
        }
    }
}

fn check_manual(item: &str, _ctx: &Ctx) -> Outcome {
    let want = match MANUAL.iter().find(|(p, _)| *p == item) {
        Some((_, w)) => w.to_string(),
        None => {
            // a regression file: last line "=> expected" is the prescribed transcript (\n escaped)
            match item.rsplit_once("\n=> ") {
                Some((_, w)) => w.replace("\\n", "\n"),
                None => return Outcome::discard("no expected transcript"),
            }
        }
    };
    let prog = item.rsplit_once("\n=> ").map(|(p, _)| p).unwrap_or(item);
    let mut term = Term::new();
    let mut o = Opts::default();
    for l in prog.split('\n') {
        term.line(l, &mut o);
    }
    let got = flat(&term.take());
    if got != want {
        return Outcome::fail("documented-example", format!("got {:?}\nmanual/prescribed {:?}", got, want), item.to_string());
    }
    Outcome::pass(true, hash_str(item)).with_case(item.to_string())
}

pub fn property() -> Property {
    Property {
        id: "C01",
        rule: "Cases: (programs) proptest-generated programs of the well-defined fragment (DESIGN 6.0): random increasing line numbers, multi-statement lines, LET/PRINT/IF-THEN-ELSE in all forms incl. nested and rest-of-line scoping, \
FOR/NEXT (bare, named, NEXT of an outer variable, bounds mentioning the loop variable, negative and fractional steps), WHILE/WEND, forward GOTO, fuel-bounded backward jumps, GOSUB/RETURN into up to 3 subroutines, ON..GOTO/GOSUB in and out of range, \
early loop exits, RETURN out of loops, END/STOP(+CONT), INPUT with replies (incl. rejected ones), READ/DATA/RESTORE, DIM/arrays, DEF FN, SWAP, MID$=, DEFtype, TRON/TROFF, deliberate error endings; run by RUN (1 in 8: RUN n) under quanta {1,7,64,5000}, with TRON in a quarter of the cases, followed by direct PRINTs of every variable; \
(direct) statement lists entered as direct lines with and without a program in memory; (manual) the manual's own examples. Oracle: the reference interpreter (statement by statement, no compiler) prescribes output, prompts, trace and terminating condition incl. `IN n`; transcripts must be identical. \
Discarded: model step budget exceeded, float equality inside the undocumented tolerance. Non-trivial: >= 2 lines executed and >= 1 taken control transfer; distinct by program text + replies + direct lines.",
        assumptions: vec![
            "the reference interpreter (model.rs, sem.rs) is the trusted base; its decisions A1..A18 are listed in DESIGN.md Appendix A with their source in the manual",
            "code-less lines (REM/DATA only) are not traced by TRON; errors inside a user function body are not generated (line attribution open)",
            "number formatting mirrors the implementation's notation choice (validated independently by C11)",
        ],
        subs: vec![
            Sub::items("manual_examples", gen_manual, check_manual, false),
            Sub::tape("programs", check_program, 150_000, 6_000_000, 900),
            Sub::tape("direct_lines", check_direct, 40_000, 1_500_000, 500),
        ],
    }
}
