//! C08 — 16-bit Integer arithmetic is always checked.
//! Oracle: i64 arithmetic. Exact result within -32768..32767 or OVERFLOW / DIVISION BY ZERO.

use crate::drive::{flat, Opts, Term};
use crate::runner::{Ctx, Outcome, Property, Sub};
use crate::tape::{hash_str, splitmix, Tape};

/// Source text that evaluates to the Integer `n` (the literal -32768 does not exist).
pub fn int_src(n: i64) -> String {
    if n == -32768 {
        "(-32767-1)".to_string()
    } else if n < 0 {
        format!("({})", n)
    } else {
        format!("{}", n)
    }
}

pub fn fmt_int(n: i64) -> String {
    if n < 0 {
        format!("{} \n", n)
    } else {
        format!(" {} \n", n)
    }
}

fn near_limit(n: i64) -> bool {
    (n - 32767).abs() <= 2 || (n + 32768).abs() <= 2
}

enum Exp {
    Val(i64),
    Err(&'static str),
}

fn expect_bin(op: &str, a: i64, b: i64) -> Option<Exp> {
    let r: i128 = match op {
        "+" => (a + b) as i128,
        "-" => (a - b) as i128,
        "*" => (a * b) as i128,
        "\\" => {
            if b == 0 {
                return Some(Exp::Err("?DIVISION BY ZERO"));
            }
            // truncating division, as in every BASIC with an Integer type
            (a / b) as i128
        }
        "MOD" => {
            if b == 0 {
                return Some(Exp::Err("?DIVISION BY ZERO"));
            }
            (a % b) as i128
        }
        "^" => {
            if b < 0 {
                return None; // result is a Single; outside this property
            }
            let mut r: i128 = 1;
            for _ in 0..b {
                r *= a as i128;
                if r.abs() > 1 << 40 {
                    break;
                }
            }
            r
        }
        _ => return None,
    };
    if (-32768..=32767).contains(&r) {
        Some(Exp::Val(r as i64))
    } else {
        Some(Exp::Err("?OVERFLOW"))
    }
}

fn expected_text(e: &Exp) -> String {
    match e {
        Exp::Val(v) => fmt_int(*v),
        Exp::Err(s) => format!("{}\n", s),
    }
}

fn run_line(t: &mut Term, line: &str) -> String {
    let mut o = Opts::default();
    t.line(line, &mut o);
    flat(&t.take())
}

// ------------------------------------------------------------------ unary, all 65536 values

fn gen_unary(part: usize, parts: usize, _th: bool, emit: &mut dyn FnMut(&str)) {
    let mut n = -32768i64 + part as i64;
    while n <= 32767 {
        emit(&n.to_string());
        n += parts as i64;
    }
}

fn check_unary(item: &str, _ctx: &Ctx) -> Outcome {
    let n: i64 = match item.trim().parse() {
        Ok(n) => n,
        Err(_) => return Outcome::discard("bad item"),
    };
    let mut t = Term::new();
    let setup = run_line(&mut t, &format!("A%={}", int_src(n)));
    if !setup.is_empty() {
        return Outcome::fail("setup", format!("A%={} printed {:?}", int_src(n), setup), item.to_string());
    }
    let neg = if n == -32768 { Exp::Err("?OVERFLOW") } else { Exp::Val(-n) };
    let abs = if n == -32768 { Exp::Err("?OVERFLOW") } else { Exp::Val(n.abs()) };
    let cases: Vec<(String, Exp)> = vec![
        ("PRINT A%".into(), Exp::Val(n)),
        ("PRINT -A%".into(), neg),
        ("PRINT ABS(A%)".into(), abs),
        ("PRINT NOT A%".into(), Exp::Val(-n - 1)),
        ("PRINT CINT(CSNG(A%))".into(), Exp::Val(n)),
        ("PRINT CINT(CDBL(A%))".into(), Exp::Val(n)),
        ("PRINT SGN(A%)".into(), Exp::Val(n.signum())),
        ("PRINT FIX(A%)".into(), Exp::Val(n)),
        ("PRINT INT(A%)".into(), Exp::Val(n)),
        ("B%=A%:PRINT B%".into(), Exp::Val(n)),
        ("PRINT 0-A%".into(), if n == -32768 { Exp::Err("?OVERFLOW") } else { Exp::Val(-n) }),
        // every negation is checked on its own: two of them do not cancel out
        ("PRINT -(-A%)".into(), if n == -32768 { Exp::Err("?OVERFLOW") } else { Exp::Val(n) }),
        ("PRINT - -A%".into(), if n == -32768 { Exp::Err("?OVERFLOW") } else { Exp::Val(n) }),
        ("C%=7:C%=-(-A%):PRINT C%".into(), if n == -32768 { Exp::Err("?OVERFLOW") } else { Exp::Val(n) }),
        ("PRINT ABS(-A%)".into(), if n == -32768 { Exp::Err("?OVERFLOW") } else { Exp::Val(n.abs()) }),
        ("PRINT -ABS(A%)".into(), if n == -32768 { Exp::Err("?OVERFLOW") } else { Exp::Val(-n.abs()) }),
    ];
    for (line, exp) in &cases {
        let got = run_line(&mut t, line);
        let want = expected_text(exp);
        if got != want {
            return Outcome::fail(
                "unary-exact-or-overflow",
                format!("A%={}: {} gave {:?}, i64 oracle says {:?}", n, line, got, want),
                format!("A%={}\n{}", int_src(n), line),
            );
        }
    }
    Outcome::pass(near_limit(n) || n.abs() <= 1, hash_str(item)).with_case(format!("A%={} : -A%, ABS, NOT, CINT(CSNG), CINT(CDBL), SGN, FIX, INT, 0-A%", n))
}

// ------------------------------------------------------------------ binary

pub const OPS: [&str; 6] = ["+", "-", "*", "\\", "MOD", "^"];

fn boundary_set() -> Vec<i64> {
    let mut v: Vec<i64> = vec![
        -32768, -32767, -32766, -16385, -16384, -256, -182, -181, -128, -3, -2, -1, 0, 1, 2, 3, 7, 15, 16, 127, 128, 181, 182, 255, 256,
        16383, 16384, 32766, 32767,
    ];
    let mut s: u64 = 0xC08;
    for _ in 0..24 {
        v.push((splitmix(&mut s) % 65536) as i64 - 32768);
    }
    v
}

fn gen_binary(part: usize, parts: usize, _th: bool, emit: &mut dyn FnMut(&str)) {
    let b = boundary_set();
    let mut idx = 0usize;
    for x in &b {
        for y in &b {
            if idx % parts == part {
                emit(&format!("{} {}", x, y));
            }
            idx += 1;
        }
    }
}

fn check_pair(a: i64, b: i64, literal_too: bool) -> Result<bool, (String, String)> {
    let mut t = Term::new();
    let s = run_line(&mut t, &format!("A%={}:B%={}", int_src(a), int_src(b)));
    if !s.is_empty() {
        return Err((format!("setup printed {:?}", s), format!("A%={}:B%={}", int_src(a), int_src(b))));
    }
    let mut nontrivial = near_limit(a) || near_limit(b);
    for op in OPS.iter() {
        let exp = match expect_bin(op, a, b) {
            Some(e) => e,
            None => continue,
        };
        if let Exp::Val(v) = &exp {
            nontrivial |= near_limit(*v);
        } else {
            nontrivial = true;
        }
        let want = expected_text(&exp);
        let line = format!("PRINT A% {} B%", op);
        let got = run_line(&mut t, &line);
        if got != want {
            return Err((
                format!("{} {} {} via variables gave {:?}, i64 oracle says {:?}", a, op, b, got, want),
                format!("A%={}:B%={}\n{}", int_src(a), int_src(b), line),
            ));
        }
        // assignment form never stores a wrapped value
        let line2 = format!("C%=0:C%=A% {} B%:PRINT C%", op);
        let got2 = run_line(&mut t, &line2);
        if got2 != want {
            return Err((
                format!("C%={} {} {} gave {:?}, oracle {:?}", a, op, b, got2, want),
                format!("A%={}:B%={}\n{}", int_src(a), int_src(b), line2),
            ));
        }
        if literal_too && a > -32768 && b > -32768 {
            let line3 = format!("PRINT {} {} {}", int_src(a), op, int_src(b));
            let got3 = run_line(&mut t, &line3);
            if got3 != want {
                return Err((format!("literal form gave {:?}, oracle {:?}", got3, want), line3));
            }
            // leading zeros do not change the type of a constant (up to 7 digits an Integer that
            // fits is an Integer)
            if a >= 0 && b >= 0 {
                let line5 = format!("PRINT {:06} {} {:07}", a, op, b);
                let got5 = run_line(&mut t, &line5);
                if got5 != want {
                    return Err((format!("constants padded with zeros gave {:?}, oracle {:?}", got5, want), line5));
                }
            }
            // the same as a stored program line (compiled with the program, not with a direct line);
            // non-negative literals so that the text holds two plain Integer constants
            if a >= 0 && b >= 0 {
                let l10 = format!("10 PRINT {} {} {}:C%={} {} {}:PRINT C%", a, op, b, a, op, b);
                let _ = run_line(&mut t, &l10);
                let got4 = run_line(&mut t, "RUN");
                let want4 = match &exp {
                    Exp::Val(_) => format!("{}{}", want, want),
                    Exp::Err(e) => format!("{} IN 10\n", e.trim_end_matches('\n')),
                };
                let _ = run_line(&mut t, "10");
                if got4 != want4 {
                    return Err((format!("as a program line: RUN gave {:?}, oracle {:?}", got4, want4), l10));
                }
                // RUN cleared the variables
                let _ = run_line(&mut t, &format!("A%={}:B%={}", int_src(a), int_src(b)));
            }
        }
    }
    Ok(nontrivial)
}

fn check_binary_item(item: &str, _ctx: &Ctx) -> Outcome {
    let mut it = item.split_whitespace();
    let a: i64 = it.next().and_then(|s| s.parse().ok()).unwrap_or(0);
    let b: i64 = it.next().and_then(|s| s.parse().ok()).unwrap_or(0);
    match check_pair(a, b, true) {
        Ok(nt) => Outcome::pass(nt, hash_str(item)).with_case(format!("A%={} B%={} : + - * \\ MOD ^ (variables, assignment, literals)", a, b)),
        Err((d, c)) => Outcome::fail("binary-exact-or-error", d, c),
    }
}

fn check_binary_random(t: &mut Tape, _ctx: &Ctx) -> Outcome {
    let mut nt = false;
    let mut key = String::new();
    let n = 1 + t.below(6);
    for _ in 0..n {
        // half of the operands are drawn near interesting magnitudes
        let a = pick_operand(t);
        let b = pick_operand(t);
        key.push_str(&format!("{},{};", a, b));
        match check_pair(a, b, false) {
            Ok(x) => nt |= x,
            Err((d, c)) => return Outcome::fail("binary-exact-or-error", d, c),
        }
    }
    Outcome::pass(nt, hash_str(&key)).with_case(format!("pairs {}", key))
}

fn pick_operand(t: &mut Tape) -> i64 {
    match t.below(4) {
        0 => t.range(-300, 300),
        1 => {
            let base = *t.pick(&[32767i64, -32768, 16384, -16384, 181, -181, 256, -256, 8192, 4096, 2048, 1024, 128, 64, 11, 5]);
            (base + t.range(-3, 3)).clamp(-32768, 32767)
        }
        _ => t.u16() as i64 - 32768,
    }
}

// ------------------------------------------------------------------ Integer constants spelled with a fraction or exponent

/// `<decimal spelling>%`: whether such a spelling is accepted at all is not documented, but a
/// constant is never silently given another value: a BASIC error, or exactly floor(value) when
/// that lies in -32768..32767.
fn gen_suffixed(part: usize, parts: usize, _th: bool, emit: &mut dyn FnMut(&str)) {
    let bodies = [
        "4E4", "32768.5", "1E5", "32767.5", "2.5", "1E3", "3.2768E4", "32768", "40000", "65536", "1D5", "32767", "32767.0", "3.2767E4", "1E38", "1D300", "0.5", "9.99E3", "32767.9",
        "327670E-1", "32768E0", ".5E5", "5.", "12345.678", "1E-3",
    ];
    for (i, b) in bodies.iter().enumerate() {
        if i % parts == part {
            emit(b);
        }
    }
}

fn check_suffixed(item: &str, _ctx: &Ctx) -> Outcome {
    let v: f64 = match item.replace('D', "E").parse() {
        Ok(v) => v,
        Err(_) => return Outcome::discard("bad item"),
    };
    let fl = v.floor();
    let allowed: Option<String> = if (-32768.0..=32767.0).contains(&fl) { Some(fmt_int(fl as i64)) } else { None };
    let mut t = Term::new();
    for line in [format!("PRINT {}%", item), format!("C%=7:C%={}%:PRINT C%", item), format!("PRINT -{}%", item), format!("PRINT {}%+0", item)] {
        let got = run_line(&mut t, &line);
        let neg = line.starts_with("PRINT -");
        let ok = got.starts_with('?')
            || match &allowed {
                Some(a) if !neg => got == *a,
                Some(_) => got == fmt_int(-(fl as i64)),
                None => false,
            };
        if !ok {
            return Outcome::fail(
                "suffixed-constant-silently-changed",
                format!("{} gave {:?}; the constant {}% is {} — a BASIC error or {} is acceptable", line, got, item, v, allowed.clone().unwrap_or_else(|| "nothing else (out of range)".into()).trim()),
                line,
            );
        }
    }
    Outcome::pass(allowed.is_none(), hash_str(item)).with_case(format!("PRINT {}%", item))
}

// ------------------------------------------------------------------ FOR/NEXT on an Integer control variable

/// NEXT adds the step to the control variable: that addition is Integer arithmetic too.
fn check_for(t: &mut Tape, _ctx: &Ctx) -> Outcome {
    let edge = |t: &mut Tape| -> i64 {
        match t.below(5) {
            0 => 32767 - t.range(0, 12),
            1 => -32768 + t.range(0, 12),
            2 => t.range(-40, 40),
            3 => *t.pick(&[30000i64, -30000, 20000, -20000, 16384, 0]),
            _ => t.u16() as i64 - 32768,
        }
    };
    let a = edge(t);
    let b = edge(t);
    let s = match t.below(6) {
        0 => 1,
        1 => -1,
        2 => t.range(-5, 5),
        3 => *t.pick(&[1000i64, -1000, 20000, -20000, 32767, -32768, 16384]),
        4 => t.range(2, 9),
        _ => -t.range(2, 9),
    };
    let var = *t.pick(&["I%", "I%", "J"]);
    let suf_b = *t.pick(&["", "", "!", "#"]);
    let suf_s = *t.pick(&["", "", "!", "#"]);
    let typed = |n: i64, suf: &str| -> String {
        if suf.is_empty() {
            int_src(n)
        } else if n < 0 {
            format!("(-{}{})", -n, suf)
        } else {
            format!("{}{}", n, suf)
        }
    };
    let prog = vec![
        "5 DEFINT J:C%=0".to_string(),
        format!("20 FOR {}={} TO {} STEP {}", var, int_src(a), typed(b, suf_b), typed(s, suf_s)),
        format!("30 C%=C%+1:IF C%>=50 THEN PRINT \"FUEL\";{}:END", var),
        format!("40 NEXT {}", if t.chance(1, 2) { var } else { "" }),
        format!("50 PRINT \"DONE\";{};C%", var),
    ];
    // oracle
    let mut cur = a;
    let mut count = 0i64;
    let mut overflow = false;
    let want = loop {
        count += 1;
        if count >= 50 {
            break format!("FUEL{}", fmt_int(cur));
        }
        let new = cur + s;
        if !(-32768..=32767).contains(&new) {
            overflow = true;
            break "?OVERFLOW IN 40\n".to_string();
        }
        cur = new;
        let done = if s < 0 { cur < b } else { cur > b };
        if done {
            break format!("DONE{}{}", fmt_int(cur).trim_end_matches('\n'), fmt_int(count));
        }
    };
    let mut term = Term::new();
    let mut o = Opts::default();
    o.max_calls = 2000;
    for l in &prog {
        term.line(l, &mut o);
    }
    term.take();
    term.line("RUN", &mut o);
    let evs = term.take();
    let case = format!("{}\nRUN", prog.join("\n"));
    if let Some(m) = crate::drive::has_panic(&evs) {
        return Outcome::fail("panic", m, case);
    }
    let got = flat(&evs);
    if got != want {
        return Outcome::fail("for-next-integer-step", format!("printed {:?}, exact arithmetic gives {:?}", got, want), case);
    }
    // the control variable afterwards
    term.line(&format!("PRINT {}", var), &mut o);
    let after = flat(&term.take());
    if after != fmt_int(cur) {
        return Outcome::fail("for-next-integer-step", format!("control variable afterwards {:?}, expected {:?}", after, fmt_int(cur)), case);
    }
    let o2 = Outcome::pass(overflow || near_limit(cur), hash_str(&case)).with_labels(vec![if overflow { "NEXT overflows: OVERFLOW" } else { "loop ends in range" }]);
    o2.with_case(case)
}

// ------------------------------------------------------------------ float -> Integer conversion

fn f32_src(x: f32) -> String {
    if x.is_nan() {
        return "(1E38!*10-1E38!*10)".into();
    }
    if x.is_infinite() {
        return if x > 0.0 { "(1E38!*10)".into() } else { "(-1E38!*10)".into() };
    }
    if x < 0.0 || (x == 0.0 && x.is_sign_negative()) {
        format!("(-{}!)", -x)
    } else {
        format!("{}!", x)
    }
}

fn f64_src(x: f64) -> String {
    if x.is_nan() {
        return "(1D308*10-1D308*10)".into();
    }
    if x.is_infinite() {
        return if x > 0.0 { "(1D308*10)".into() } else { "(-1D308*10)".into() };
    }
    if x < 0.0 || (x == 0.0 && x.is_sign_negative()) {
        format!("(-{}#)", -x)
    } else {
        format!("{}#", x)
    }
}

fn conv_values() -> Vec<(String, f64, &'static str)> {
    // (source text, exact value as f64, type)
    let mut v = vec![];
    let centers = [-32769.0f64, -32768.0, -32767.0, -1.0, 0.0, 1.0, 32766.0, 32767.0, 32768.0, 32769.0, 65535.0, 65536.0, -65536.0, 1e9, -1e9];
    let deltas = [0.0f64, 1.0 / 1048576.0, 0.001953125, 0.25, 0.5, 0.75, 0.998046875, 1.0];
    for c in centers {
        for d in deltas {
            for s in [-1.0f64, 1.0] {
                let x = c + s * d;
                v.push((f64_src(x), x, "Double"));
                let xf = x as f32;
                v.push((f32_src(xf), xf as f64, "Single"));
            }
        }
    }
    for x in [f64::NAN, f64::INFINITY, f64::NEG_INFINITY, 1e300, -1e300, 1e-300, -1e-300, 4.9e-324] {
        v.push((f64_src(x), x, "Double"));
    }
    for x in [f32::NAN, f32::INFINITY, f32::NEG_INFINITY, 3e38, -3e38, 1e-40, -1e-40] {
        v.push((f32_src(x), x as f64, "Single"));
    }
    v
}

const CONV_FORMS: [&str; 9] = ["assign", "cint", "divint", "mod", "logical", "subscript", "on", "divint_r", "mod_r"];

fn gen_conv(part: usize, parts: usize, _th: bool, emit: &mut dyn FnMut(&str)) {
    let vals = conv_values();
    let mut idx = 0;
    for (i, _) in vals.iter().enumerate() {
        for form in CONV_FORMS.iter() {
            if idx % parts == part {
                emit(&format!("{} {}", form, i));
            }
            idx += 1;
        }
    }
}

fn check_conv(item: &str, _ctx: &Ctx) -> Outcome {
    let mut it = item.split_whitespace();
    let form = it.next().unwrap_or("");
    let i: usize = it.next().and_then(|s| s.parse().ok()).unwrap_or(0);
    let vals = conv_values();
    if i >= vals.len() {
        return Outcome::discard("bad index");
    }
    let (src, x, ty) = &vals[i];
    let fl = x.floor();
    let in_range = fl >= -32768.0 && fl <= 32767.0; // false for NaN
    let n = if in_range { fl as i64 } else { 0 };
    let mut t = Term::new();
    let (line, want): (String, Vec<String>) = match form {
        "assign" => (format!("A%=123:A%={}:PRINT A%", src), vec![if in_range { fmt_int(n) } else { "?OVERFLOW\n".into() }]),
        "cint" => (format!("PRINT CINT({})", src), vec![if in_range { fmt_int(n) } else { "?OVERFLOW\n".into() }]),
        "divint" => (format!("PRINT {}\\1", src), vec![if in_range { fmt_int(n) } else { "?OVERFLOW\n".into() }]),
        "mod" => (format!("PRINT {} MOD 32767", src), vec![if in_range { fmt_int(n % 32767) } else { "?OVERFLOW\n".into() }]),
        "logical" => (format!("PRINT {} OR 0", src), vec![if in_range { fmt_int(n) } else { "?OVERFLOW\n".into() }]),
        // the float as the divisor: converted first, so a fraction in [0,1) is a zero divisor
        "divint_r" => (
            format!("PRINT 7\\{}", src),
            vec![if !in_range {
                "?OVERFLOW\n".into()
            } else if n == 0 {
                "?DIVISION BY ZERO\n".into()
            } else {
                fmt_int(7 / n)
            }],
        ),
        "mod_r" => (
            format!("PRINT -7 MOD {}", src),
            vec![if !in_range {
                "?OVERFLOW\n".into()
            } else if n == 0 {
                "?DIVISION BY ZERO\n".into()
            } else {
                fmt_int(-7 % n)
            }],
        ),
        "subscript" => (
            format!("DIM Q%(32767):Q%({})=7:PRINT Q%({})", src, src),
            if in_range && n >= 0 {
                vec![fmt_int(7)]
            } else if in_range {
                vec!["?SUBSCRIPT OUT OF RANGE\n".into()]
            } else {
                // beyond +-32767 the manual does not say which of the two errors
                vec!["?OVERFLOW\n".into(), "?SUBSCRIPT OUT OF RANGE\n".into()]
            },
        ),
        "on" => {
            let s = run_line(&mut t, "10 PRINT \"T\":END");
            if !s.is_empty() {
                return Outcome::fail("setup", s, item.to_string());
            }
            (
                format!("ON {} GOTO 10:PRINT \"F\"", src),
                if !in_range {
                    vec!["?OVERFLOW\n".into()]
                } else if n < 0 {
                    vec!["?ILLEGAL FUNCTION CALL\n".into()]
                } else if n == 1 {
                    vec!["T\n".into()]
                } else {
                    vec!["F\n".into()]
                },
            )
        }
        _ => return Outcome::discard("bad form"),
    };
    let got = run_line(&mut t, &line);
    if !want.contains(&got) {
        return Outcome::fail(
            "float-to-integer-floor-or-overflow",
            format!("{} value {:e}: {} gave {:?}, oracle (floor then range check) says {:?}", ty, x, line, got, want),
            line,
        );
    }
    let nontrivial = x.is_nan() || x.is_infinite() || (x.abs() - 32768.0).abs() <= 2.0;
    Outcome::pass(nontrivial, hash_str(item)).with_case(format!("{}  [{} {:e}]", line, ty, x))
}

pub fn property() -> Property {
    Property {
        id: "C08",
        rule: "Cases: (literal forms also with both constants padded with zeros to 6 and 7 digits) (a) every one of the 65536 Integers through unary minus, ABS, NOT, CINT(CSNG), CINT(CDBL), SGN, FIX, INT, 0-x; \
(b) all ordered pairs of a 53-value boundary set (limits, powers of two, sqrt(32768) neighbours, 24 pseudo-random) through + - * \\ MOD ^ \
in variable, assignment and literal form; (c) proptest-generated random operand pairs over the full range; (d) Single and Double values at \
k +- {0,2^-20,..,1} around -32769..32769, +-65536, 1e9, NaN, +-inf, through A%=x, CINT, \\, MOD, OR, array subscript, ON. \
Oracle: i64/i128 arithmetic (exact result in -32768..32767, else OVERFLOW; \\ and MOD by zero DIVISION BY ZERO; conversion = floor then range check). \
Non-trivial = an operand or the exact result lies within 2 of a 16-bit limit, or an error is the expected outcome; distinct by operand tuple.",
        assumptions: vec![
            "values are observed through PRINT of an Integer (format: sign-or-blank, digits, blank), validated independently by C11",
            "the harness is built without overflow checks like the shipped release profile, so a wrapped result shows up as a wrong value",
            "'^' with a negative Integer exponent yields a Single and is outside the property",
        ],
        subs: vec![
            Sub::items("unary_all_65536", gen_unary, check_unary, true),
            Sub::items("binary_boundary_pairs", gen_binary, check_binary_item, true),
            Sub::tape("binary_random_pairs", check_binary_random, 150_000, 8_000_000, 40),
            Sub::items("float_to_integer", gen_conv, check_conv, true),
            Sub::tape("for_next_integer", check_for, 40_000, 1_500_000, 40),
            Sub::items("suffixed_constants", gen_suffixed, check_suffixed, true),
        ],
    }
}
