//! C18 — memory pools are bounded at 64K and completed statements leave nothing behind.
//! (a) residue: a generated terminating body is iterated in a GOTO loop; the value-stack depth at
//!     the loop head (verif-hooks probe) must not change from one iteration to the next, and a
//!     long public-API run must not end in OUT OF MEMORY;
//! (b) limits: every pool is driven past its limit: OUT OF MEMORY, no panic, session usable.

use crate::bast::*;
use crate::drive::{flat, guarded, has_panic, Opts, Term};
use crate::expr::*;
use crate::gen::{self, GenOpts};
use crate::runner::{Ctx, Outcome, Property, Sub};
use crate::sem::Bin;
use crate::tape::{hash_str, Tape};
use basic::mach::Event;

const MARK: &str = "#";

/// Wraps a generated program into `head: PRINT "#"; body ... N9%=N9%+1: IF N9%<k THEN head`.
fn looped(g: &gen::Generated, iterations: i64) -> Option<Program> {
    let mut p = g.prog.clone();
    if p.lines.is_empty() {
        return None;
    }
    let main_end = p.lines.iter().position(|l| l.stmts == vec![Stmt::End])?;
    let tail_num = p.lines[main_end].num;
    let head_num = p.lines[0].num;
    // END in the main part jumps to the loop tail; END inside subroutines returns
    fn rewrite(stmts: &mut Vec<Stmt>, to: Stmt) {
        for s in stmts.iter_mut() {
            match s {
                Stmt::End | Stmt::Stop => *s = to.clone(),
                Stmt::If { then_, else_, .. } => {
                    if let Arm::Stmts(v) = then_ {
                        rewrite(v, to.clone());
                    }
                    if let Some(Arm::Stmts(v)) = else_ {
                        rewrite(v, to.clone());
                    }
                }
                _ => {}
            }
        }
    }
    for (i, l) in p.lines.iter_mut().enumerate() {
        if i < main_end {
            rewrite(&mut l.stmts, Stmt::Goto(tail_num));
        } else if i > main_end {
            rewrite(&mut l.stmts, Stmt::Return);
        }
    }
    // DIM (REDIMENSIONED ARRAY) and DEFtype (drops variables) must not be repeated: the loop head
    // is the first line behind the last of them. DEF is a statement like any other: executing it
    // again and again must leave nothing behind.
    let first_body = match p.lines.iter().rposition(|l| l.stmts.iter().any(|s| matches!(s, Stmt::Dim(_) | Stmt::DefType(..)))) {
        Some(i) => i + 1,
        None => 0,
    };
    if first_body >= main_end {
        return None;
    }
    let _ = head_num;
    let head = p.lines[first_body].num;
    if p.lines[first_body].stmts.iter().any(|s| matches!(s, Stmt::Rem { .. })) {
        p.lines[first_body].stmts = vec![];
    }
    p.lines[first_body].stmts.insert(0, Stmt::Print(vec![PItem::Expr(E::Str(MARK.into())), PItem::Semi]));
    // every built-in function, in every argument-count form, once per pass
    let c = |n: &'static str, a: Vec<E>| E::Call(n, a);
    let l = |x: &str| E::Lit(x.to_string());
    let st = |x: &str| E::Str(x.to_string());
    let add = |a: E, b: E| E::Bin(Bin::Add, Box::new(a), Box::new(b));
    let nums: Vec<E> = vec![
        c("POS", vec![l("0")]),
        c("LEN", vec![c("MID$", vec![st("abcé"), l("2")])]),
        c("LEN", vec![c("MID$", vec![st("abcé"), l("2"), l("1")])]),
        c("INSTR", vec![st("abé"), st("é")]),
        c("INSTR", vec![l("2"), st("abé"), st("é")]),
        c("LEN", vec![c("STRING$", vec![l("2"), l("65")])]),
        c("LEN", vec![c("STRING$", vec![l("2"), st("é")])]),
        c("LEN", vec![c("LEFT$", vec![st("abc"), l("2")])]),
        c("LEN", vec![c("RIGHT$", vec![st("abc"), l("2")])]),
        c("ASC", vec![c("CHR$", vec![l("66")])]),
        c("VAL", vec![c("STR$", vec![l("5")])]),
        c("LEN", vec![add(c("HEX$", vec![l("255")]), c("OCT$", vec![l("8")]))]),
        c("INT", vec![c("RND", vec![l("1")])]),
        c("SGN", vec![c("ABS", vec![c("FIX", vec![l("2.5")])])]),
        c("CINT", vec![c("CSNG", vec![c("CDBL", vec![c("SQR", vec![l("4")])])])]),
        c("INT", vec![c("EXP", vec![c("LOG", vec![l("1")])])]),
        c("INT", vec![add(add(c("SIN", vec![l("0")]), c("COS", vec![l("0")])), add(c("TAN", vec![l("0")]), c("ATN", vec![l("0")])))]),
    ];
    let mut sum = l("0");
    for e in nums {
        sum = add(sum, e);
    }
    p.lines[first_body].stmts.insert(1, Stmt::Let { lv: Lval::Var(Name::new("Z8")), e: sum, kw: false });
    p.lines[main_end].stmts = vec![
        Stmt::Let { lv: Lval::Var(Name::new("N9%")), e: E::Bin(Bin::Add, Box::new(E::Var(Name::new("N9%"))), Box::new(E::Lit("1".into()))), kw: false },
        Stmt::Restore(None),
        Stmt::If { c: E::Bin(Bin::Lt, Box::new(E::Var(Name::new("N9%"))), Box::new(E::Lit(iterations.to_string()))), then_: Arm::Line(head), else_: None, goto_form: false },
    ];
    // the fall-through behind the tail must not run into the subroutines
    let after = p.lines.get(main_end + 1).map(|l| l.num);
    let end_num = match after {
        Some(a) if a > tail_num + 1 => tail_num + 1,
        None if tail_num < 65529 => tail_num + 1,
        _ => return None,
    };
    p.lines.insert(main_end + 1, Line { num: end_num, stmts: vec![Stmt::End] });
    Some(p)
}

struct LoopRun {
    /// (stack_len, vars_len) at every loop head
    heads: Vec<(usize, usize)>,
    errors: Vec<String>,
    finished: bool,
    panic: Option<String>,
}

fn run_looped(texts: &[String], replies: &[String], max_heads: usize, max_calls: usize) -> LoopRun {
    let mut term = Term::new();
    let mut o = Opts::default();
    for l in texts {
        term.enter_raw(l);
        term.run(&mut o);
    }
    term.take();
    let mut r = LoopRun { heads: vec![], errors: vec![], finished: false, panic: None };
    let mut ri = 0usize;
    term.enter_raw("RUN");
    for _ in 0..max_calls {
        let ev = match guarded(|| term.rt.execute(5000)) {
            Ok(e) => e,
            Err(m) => {
                r.panic = Some(m);
                return r;
            }
        };
        match ev {
            Event::Stopped => {
                r.finished = true;
                return r;
            }
            Event::Print(s) => {
                if s == MARK {
                    let pr = term.rt.verif_probe();
                    r.heads.push((pr.stack_len, pr.vars_len));
                    if r.heads.len() >= max_heads {
                        return r;
                    }
                }
            }
            Event::Errors(e) => {
                for x in e.iter() {
                    r.errors.push(x.to_string());
                }
            }
            Event::Input(_, _) => {
                let rep = if replies.is_empty() { "1".to_string() } else { replies[ri % replies.len()].clone() };
                ri += 1;
                if guarded(|| term.rt.enter(&rep)).is_err() {
                    r.panic = Some(crate::drive::last_panic());
                    return r;
                }
            }
            Event::Inkey => {
                let _ = guarded(|| term.rt.enter(""));
            }
            _ => {}
        }
    }
    r
}

fn gen_body(t: &mut Tape) -> gen::Generated {
    let mut o = GenOpts::plain();
    o.early_exit = false; // an abandoned FOR loop legitimately stays on the stack
    o.fuel_loops = false;
    o.size = 12;
    o.errors = false;
    o.allow_end = false; // END inside a loop or subroutine would abandon frames when looped
    gen::program(t, &o)
}

fn frame_pushers(p: &Program) -> bool {
    let mut f = false;
    for l in &p.lines {
        walk(&l.stmts, &mut |s| {
            if matches!(s, Stmt::For { .. } | Stmt::Gosub(_) | Stmt::On { gosub: true, .. } | Stmt::Input { .. }) {
                f = true
            }
            if let Stmt::Let { e, .. } = s {
                if crate::expr::render(e).contains("FN") {
                    f = true
                }
            }
        });
    }
    f
}

fn check_residue(t: &mut Tape, ctx: &Ctx) -> Outcome {
    let g = gen_body(t);
    let p = match looped(&g, 60) {
        Some(p) => p,
        None => return Outcome::discard("program shape not suitable for looping"),
    };
    let texts = p.texts();
    let case = format!("{}\nreplies {:?}", texts.join("\n"), g.replies);
    crate::runner::note_case(&case);
    if let Err(e) = super::c01::printer_guard(&p) {
        return Outcome::fail(&e.0, e.1, case);
    }
    let replies: Vec<String> = g.replies.iter().filter(|r| !["x,y,z,w", "\"", "1 2", "99999999999", ",,"].contains(&r.as_str())).cloned().collect();
    let r = run_looped(&texts, &replies, 55, 40_000);
    if let Some(m) = r.panic {
        return Outcome::fail("panic", m, case);
    }
    if r.errors.iter().any(|e| e.contains("OUT OF MEMORY")) {
        return Outcome::fail("terminating-body-ran-out-of-memory", format!("errors {:?} after {} iterations", r.errors, r.heads.len()), case);
    }
    if !r.errors.is_empty() {
        // the body ends in a BASIC error in some iteration (overflow of an accumulating variable,
        // OUT OF DATA ...): not a terminating statement sequence
        return Outcome::discard("the body raises an error in some iteration");
    }
    if r.heads.len() < 4 {
        return Outcome::discard("fewer than 4 iterations");
    }
    // the stack depth at the loop head is the same on every iteration after the first
    let base = r.heads[1].0;
    for (i, (s, _)) in r.heads.iter().enumerate().skip(1) {
        if *s != base {
            return Outcome::fail(
                "stack-residue",
                format!("value-stack depth at the loop head: iteration 2 = {}, iteration {} = {} (all: {:?})", base, i + 1, s, r.heads.iter().map(|h| h.0).collect::<Vec<_>>()),
                case,
            );
        }
    }
    let nt = frame_pushers(&p);
    let o = Outcome::pass(nt, hash_str(&case)).with_labels(if nt { vec!["body pushes frames (FOR / GOSUB / ON..GOSUB / FN / INPUT)"] } else { vec![] });
    if ctx.render {
        o.with_case(format!("{}\n(stack depth at the loop head over {} iterations: {})", case, r.heads.len(), base))
    } else {
        o
    }
}

fn check_long_run(t: &mut Tape, ctx: &Ctx) -> Outcome {
    // public API only: 70 000 iterations (> 65 536) must not end in OUT OF MEMORY
    let g = gen_body(t);
    let mut p = match looped(&g, 70_000) {
        Some(p) => p,
        None => return Outcome::discard("program shape not suitable for looping"),
    };
    // N9% would overflow: use a Single counter
    for l in p.lines.iter_mut() {
        for s in l.stmts.iter_mut() {
            rename_counter(s);
        }
    }
    let texts = p.texts();
    let case = format!("{}\nreplies {:?}", texts.join("\n"), g.replies);
    crate::runner::note_case(&case);
    // first make sure one iteration is cheap and error free
    let probe = run_looped(&texts, &g.replies, 20, 4000);
    if probe.panic.is_some() || !probe.errors.is_empty() || probe.heads.len() < 20 {
        return Outcome::discard("body too slow or not error free");
    }
    let r = run_looped(&texts, &g.replies, 70_001, 3_000_000);
    if let Some(m) = r.panic {
        return Outcome::fail("panic", m, case);
    }
    if r.errors.iter().any(|e| e.contains("OUT OF MEMORY")) {
        return Outcome::fail("terminating-body-ran-out-of-memory", format!("{:?} after {} iterations", r.errors, r.heads.len()), case);
    }
    if !r.errors.is_empty() {
        return Outcome::discard("the body raises an error in some iteration");
    }
    if !r.finished && r.heads.len() < 70_000 {
        return Outcome::discard("call budget exhausted before 70000 iterations");
    }
    let nt = frame_pushers(&p);
    let o = Outcome::pass(nt, hash_str(&case));
    if ctx.render {
        o.with_case(format!("{}\n({} iterations without OUT OF MEMORY)", case, r.heads.len()))
    } else {
        o
    }
}

fn rename_counter(s: &mut Stmt) {
    fn e(x: &mut E) {
        match x {
            E::Var(n) if n.text() == "N9%" => *n = Name::new("N9"),
            E::Bin(_, a, b) => {
                e(a);
                e(b)
            }
            _ => {}
        }
    }
    match s {
        Stmt::Let { lv: Lval::Var(n), e: ex, .. } => {
            if n.text() == "N9%" {
                *n = Name::new("N9");
            }
            e(ex)
        }
        Stmt::If { c, .. } => e(c),
        _ => {}
    }
}

// ------------------------------------------------------------------ variables free their slots

fn check_var_slots(t: &mut Tape, ctx: &Ctx) -> Outcome {
    let mut term = Term::new();
    let mut o = Opts::default();
    let n = 1 + t.below(12);
    let mut script = String::new();
    let names = ["A", "B%", "C#", "D$", "E!", "Q(3)", "Q(4)", "R$(1,1)", "S%(0)", "X1", "Y2$", "Z(10)"];
    let base = term.rt.verif_probe().vars_len;
    let mut live: Vec<&str> = vec![];
    let mut dimmed: Vec<&str> = vec![];
    for _ in 0..n {
        if !dimmed.is_empty() && t.chance(1, 6) {
            // ERASE gives back every element of the array, the one at the upper bound included
            let a = dimmed.remove(t.below(dimmed.len()));
            let line = format!("ERASE {}", a);
            script.push_str(&line);
            script.push('\n');
            term.line(&line, &mut o);
            let out = flat(&term.take());
            if !out.is_empty() {
                return Outcome::fail("assignment-printed", format!("{:?} printed {:?}", line, out), script);
            }
            live.retain(|x| !x.starts_with(&format!("{}(", a)));
            let now = term.rt.verif_probe().vars_len;
            if now != base + live.len() {
                return Outcome::fail("slot-not-freed", format!("after {:?}: {} stored values, but exactly {} variables hold a non-default value ({:?})", line, now - base, live.len(), live), script);
            }
            continue;
        }
        let v = *t.pick(&names);
        if let Some(i) = v.find('(') {
            if !dimmed.contains(&&v[..i]) {
                dimmed.push(&v[..i]);
            }
        }
        let is_str = v.contains('$');
        let set = t.chance(2, 3);
        let line = if set {
            if is_str {
                format!("{}=\"v{}\"", v, t.below(9))
            } else {
                format!("{}={}", v, 1 + t.below(9))
            }
        } else if is_str {
            format!("{}=\"\"", v)
        } else {
            match t.below(3) {
                0 => format!("{}=0", v),
                1 => format!("{}=1-1", v),
                _ => format!("{}={}-{}", v, v, v),
            }
        };
        script.push_str(&line);
        script.push('\n');
        term.line(&line, &mut o);
        let out = flat(&term.take());
        if !out.is_empty() {
            return Outcome::fail("assignment-printed", format!("{:?} printed {:?}", line, out), script);
        }
        live.retain(|x| *x != v);
        if set {
            live.push(v);
        }
        let now = term.rt.verif_probe().vars_len;
        if now != base + live.len() {
            return Outcome::fail(
                "slot-not-freed",
                format!("after {:?}: {} stored values, but exactly {} variables hold a non-default value ({:?})", line, now - base, live.len(), live),
                script,
            );
        }
    }
    let o2 = Outcome::pass(n >= 3, hash_str(&script));
    if ctx.render {
        o2.with_case(script)
    } else {
        o2
    }
}

// ------------------------------------------------------------------ limits

fn many(unit: &str, limit: usize) -> String {
    let mut s = String::new();
    while s.len() + unit.len() <= limit {
        s.push_str(unit);
    }
    s
}

/// (name, program lines + commands, must the run report OUT OF MEMORY)
fn scenarios() -> Vec<(&'static str, Vec<String>, bool)> {
    let mut v: Vec<(&'static str, Vec<String>, bool)> = vec![];
    v.push(("runaway GOSUB", vec!["10 GOSUB 10".into(), "RUN".into()], true));
    v.push(("runaway GOSUB through two lines", vec!["10 A=A+1:GOSUB 20".into(), "20 GOSUB 10".into(), "RUN".into()], true));
    v.push(("user-function recursion", vec!["10 DEF FNR(X)=FNR(X)+1".into(), "20 PRINT FNR(1)".into(), "RUN".into()], true));
    v.push(("mutual user-function recursion", vec!["10 DEF FNA(X)=FNB(X)".into(), "20 DEF FNB(X)=FNA(X)".into(), "30 PRINT FNA(1)".into(), "RUN".into()], true));
    v.push(("FOR re-entered by GOTO", vec!["10 FOR I=1 TO 10:GOTO 10".into(), "RUN".into()], true));
    v.push(("FOR re-entered by GOTO, several variables", vec!["10 FOR I=1 TO 2:FOR J=1 TO 2:FOR K=1 TO 2:GOTO 10".into(), "RUN".into()], true));
    v.push(("ON..GOSUB recursion", vec!["10 ON 1 GOSUB 10".into(), "RUN".into()], true));
    v.push((
        "more than 65536 live array elements",
        vec!["10 DIM A(32767),B(32767),C(100)".into(), "20 FOR I=0 TO 32767:A(I)=1:B(I)=1:NEXT".into(), "30 FOR I=0 TO 100:C(I)=1:NEXT".into(), "40 PRINT \"NOT REACHED\"".into(), "RUN".into()],
        true,
    ));
    v.push(("more than 65536 live string elements", vec!["10 DIM A$(32767),B$(32767),C$(100)".into(), "20 FOR I=0 TO 32767:A$(I)=\"é\":B$(I)=\"x\":NEXT".into(), "30 FOR I=0 TO 100:C$(I)=\"y\":NEXT".into(), "RUN".into()], true));
    // > 65536 DATA values
    let mut data: Vec<String> = vec![];
    let unit = many("1,", 1000);
    let per_line = unit.matches(',').count();
    let mut n = 1;
    let mut total = 0;
    while total <= 66_000 {
        data.push(format!("{} DATA {}1", n, unit));
        n += 1;
        total += per_line + 1;
    }
    data.push("RUN".into());
    v.push(("more than 65536 DATA values", data, true));
    // > 65536 instructions
    let mut code: Vec<String> = vec![];
    let unit = many("A=1:", 1000);
    let per_line = unit.matches(':').count() * 2;
    let mut n = 1;
    let mut total = 0;
    while total <= 70_000 {
        code.push(format!("{} {}A=1", n, unit));
        n += 1;
        total += per_line + 2;
    }
    code.push("RUN".into());
    v.push(("more than 65536 instructions", code, true));
    // very long lines
    v.push(("deeply parenthesised 1024-byte line", vec![format!("10 A={}1{}", "(".repeat(500), ")".repeat(500)), "RUN".into()], false));
    v.push(("1010 unary minus signs", vec![format!("10 A={}1", "-".repeat(1010)), "RUN".into()], false));
    v.push(("nested IF line", vec![format!("10 {}PRINT 1", many("IF 1 THEN ", 1000)), "RUN".into()], false));
    v.push(("string doubling", vec!["10 A$=\"é\"".into(), "20 A$=A$+A$:GOTO 20".into(), "RUN".into()], false));
    v.push(("direct-mode runaway", vec!["10 GOSUB 10".into(), "GOSUB 10".into()], true));
    // terminating programs whose statements discard frames that were left open: nothing may pile up
    v.push((
        "terminates: inner FOR left early, closed by the named outer NEXT",
        vec!["10 FOR I=1 TO 20000".into(), "20 FOR J=1 TO 3".into(), "30 IF J=2 THEN 50".into(), "40 NEXT J".into(), "50 NEXT I".into(), "60 PRINT \"DONE\";I".into(), "RUN".into()],
        false,
    ));
    v.push((
        "terminates: RETURN out of a FOR loop inside the subroutine",
        vec!["10 FOR I=1 TO 20000:GOSUB 100:NEXT I".into(), "20 PRINT \"DONE\";I:END".into(), "100 FOR J=1 TO 3:FOR K=1 TO 2:IF K=2 THEN RETURN".into(), "110 NEXT K,J:RETURN".into(), "RUN".into()],
        false,
    ));
    v.push((
        "terminates: two inner loops left early under NEXT J,I",
        vec!["10 FOR I=1 TO 9000:FOR J=1 TO 2".into(), "20 FOR K=1 TO 3:FOR L=1 TO 3:IF L=2 THEN 40".into(), "30 NEXT L,K".into(), "40 NEXT J,I".into(), "50 PRINT \"DONE\";I".into(), "RUN".into()],
        false,
    ));
    v.push((
        "terminates: a loop left by GOTO lies between the two loops of NEXT J,I",
        vec!["10 FOR I=1 TO 9000".into(), "20 FOR K=1 TO 3:GOTO 30".into(), "30 FOR J=1 TO 2".into(), "40 NEXT J,I".into(), "50 IF I=9001 AND J=3 THEN PRINT \"DONE\"".into(), "RUN".into()],
        false,
    ));
    v
}

fn gen_limits(part: usize, parts: usize, _th: bool, emit: &mut dyn FnMut(&str)) {
    for (i, (name, _, _)) in scenarios().iter().enumerate() {
        if i % parts == part {
            emit(name);
        }
    }
}

fn check_limit(item: &str, _ctx: &Ctx) -> Outcome {
    let sc = scenarios();
    let (name, lines, must_oom) = match sc.iter().find(|(n, _, _)| *n == item) {
        Some(x) => x.clone(),
        None => return Outcome::discard("unknown scenario"),
    };
    crate::runner::note_case(name);
    let mut term = Term::new();
    let mut o = Opts::default();
    o.max_calls = 400_000;
    let mut out = String::new();
    for l in &lines {
        let end = term.line(l, &mut o);
        let evs = term.take();
        if let Some(m) = has_panic(&evs) {
            return Outcome::fail("panic", m, format!("{}: {}", name, l.chars().take(80).collect::<String>()));
        }
        if end != crate::drive::End::Stopped {
            return Outcome::fail("limit-not-enforced", format!("{:?} still running after {} execute calls", l.chars().take(40).collect::<String>(), o.max_calls), name.to_string());
        }
        let f = flat(&evs);
        // keep the transcript small
        out.push_str(&f.chars().take(400).collect::<String>());
        let pr = term.rt.verif_probe();
        if pr.stack_len > 65_536 + 64 {
            return Outcome::fail("pool-grew-past-its-limit", format!("value stack holds {} values", pr.stack_len), name.to_string());
        }
        if pr.vars_len > 65_536 + 64 {
            return Outcome::fail("pool-grew-past-its-limit", format!("{} stored variables", pr.vars_len), name.to_string());
        }
    }
    if must_oom && !out.contains("?OUT OF MEMORY") {
        return Outcome::fail("limit-not-reported-as-out-of-memory", format!("transcript: {:?}", out), name.to_string());
    }
    if name.starts_with("terminates:") && (!out.contains("DONE") || out.contains('?')) {
        return Outcome::fail("terminating-program-ran-out-of-memory", format!("transcript: {:?}", out), name.to_string());
    }
    if out.contains("NOT REACHED") {
        return Outcome::fail("limit-not-enforced", format!("transcript: {:?}", out), name.to_string());
    }
    // the session stays usable
    for (cmd, want) in [("PRINT 1+1", " 2 \n"), ("NEW", ""), ("10 PRINT \"OK\"", ""), ("RUN", "OK\n"), ("A=5:PRINT A", " 5 \n")] {
        term.line(cmd, &mut o);
        let evs = term.take();
        if let Some(m) = has_panic(&evs) {
            return Outcome::fail("panic", m, format!("{} then {}", name, cmd));
        }
        let got = flat(&evs);
        if got != want {
            return Outcome::fail("session-not-usable-after-limit", format!("after {:?}: {:?} printed {:?}, expected {:?}", name, cmd, got, want), name.to_string());
        }
    }
    Outcome::pass(true, hash_str(item)).with_case(format!("{} -> {}", name, out.chars().take(120).collect::<String>()))
}

// ------------------------------------------------------------------ direct statements next to a program that just fits the code pool

fn unit_program(unit: &str, per_line: usize, k: usize, tail: &str) -> Vec<String> {
    let mut v = vec![];
    let mut left = k;
    let mut n = 1;
    while left > 0 {
        let take = left.min(per_line);
        v.push(format!("{} {}{}", n, unit.repeat(take), tail));
        left -= take;
        n += 1;
    }
    v
}

pub fn gen_boundary(part: usize, parts: usize, _th: bool, emit: &mut dyn FnMut(&str)) {
    for (i, u) in ["A=1:", "?,,,,:", "B$=\"x\":"].iter().enumerate() {
        if i % parts == part {
            emit(u);
        }
    }
}

pub fn check_boundary(item: &str, _ctx: &Ctx) -> Outcome {
    let unit = item;
    // the listed form must fit into a line too (? lists as PRINT)
    let listed_unit = basic::lang::Line::new(&format!("1 {}Z9=7", unit)).to_string().len() - "1 Z9=7".len();
    let per_line = 960 / listed_unit.max(unit.len());
    let tail = "Z9=7";
    let mut o = Opts::default();
    o.max_calls = 400_000;
    // does a program of k units compile and run?
    let fits = |k: usize| -> Result<bool, String> {
        let mut term = Term::new();
        let mut o = Opts::default();
        o.max_calls = 400_000;
        term.line("B$=\"\"", &mut o);
        for l in unit_program(unit, per_line, k, tail) {
            term.enter_raw(&l);
            term.run(&mut o);
        }
        term.take();
        term.line("RUN", &mut o);
        let evs = term.take();
        if let Some(m) = has_panic(&evs) {
            return Err(m);
        }
        Ok(!flat(&evs).contains("?OUT OF MEMORY"))
    };
    let (mut lo, mut hi) = (1usize, 70_000usize);
    match fits(lo) {
        Ok(true) => {}
        Ok(false) => return Outcome::fail("harness", "a one-unit program does not fit".into(), item.to_string()),
        Err(m) => return Outcome::fail("panic", m, item.to_string()),
    }
    while lo + 1 < hi {
        let mid = (lo + hi) / 2;
        match fits(mid) {
            Ok(true) => lo = mid,
            Ok(false) => hi = mid,
            Err(m) => return Outcome::fail("panic", m, format!("{} x {}", unit, mid)),
        }
    }
    if hi >= 70_000 {
        return Outcome::fail("limit-not-enforced", format!("a program of 70000 x {:?} still runs", unit), item.to_string());
    }
    let kmax = lo;
    // programs with 0..5 units of spare room; direct statements of growing size beside them
    for spare in 0..6usize {
        let k = kmax - spare;
        let case = format!("program of {} x {:?} (the largest that fits has {}), then direct statements of growing size", k, unit, kmax);
        crate::runner::note_case(&case);
        let mut term = Term::new();
        let prog = unit_program(unit, per_line, k, tail);
        for l in &prog {
            term.enter_raw(l);
            term.run(&mut o);
        }
        term.take();
        let listing_before = term.listing_text();
        let directs: Vec<(String, String)> = vec![
            ("PRINT 1".into(), " 1 \n".into()),
            ("PRINT 1;2;3;4;5;6;7;8".into(), " 1  2  3  4  5  6  7  8 \n".into()),
            ("PRINT 1".into(), " 1 \n".into()),
            (format!("C=0:{}PRINT C", "C=C+1:".repeat(30)), " 30 \n".into()),
            ("PRINT 2".into(), " 2 \n".into()),
            ("Q=5".into(), "".into()),
            ("PRINT 3;4".into(), " 3  4 \n".into()),
        ];
        let mut refused = 0;
        for (cmd, want) in &directs {
            term.line(cmd, &mut o);
            let evs = term.take();
            if let Some(m) = has_panic(&evs) {
                return Outcome::fail_sig("panic", format!("boundary-panic:{}", cmd.chars().take(7).collect::<String>()), m, format!("{}\nfailing direct statement: {}", case, cmd.chars().take(60).collect::<String>()));
            }
            let got = flat(&evs);
            if got.contains("?OUT OF MEMORY") {
                refused += 1;
            } else if got != *want {
                return Outcome::fail("direct-statement-beside-a-full-program", format!("{:?} printed {:?}; expected {:?} or ?OUT OF MEMORY", cmd.chars().take(60).collect::<String>(), got, want), case);
            }
        }
        if term.listing_text() != listing_before {
            return Outcome::fail("listing-changed", "direct statements changed the stored program".into(), case);
        }
        // make room by deleting the last line by its number: everything works again
        let last_no = prog.len();
        term.line(&format!("{}", last_no), &mut o);
        term.take();
        for (cmd, want) in [("PRINT 1+1", " 2 \n"), ("RUN", ""), ("PRINT A;Z9", if last_no == 1 { " 0  0 \n" } else if unit.starts_with("A=") { " 1  7 \n" } else { " 0  7 \n" })] {
            term.line(cmd, &mut o);
            let evs = term.take();
            if let Some(m) = has_panic(&evs) {
                return Outcome::fail("panic", m, format!("{}\nthen {}", case, cmd));
            }
            let got = flat(&evs);
            let got_cmp = if cmd == "RUN" && unit.starts_with('?') { String::new() } else { got.clone() };
            if got_cmp != want {
                return Outcome::fail("session-not-usable-after-limit", format!("after deleting line {}: {:?} printed {:?}, expected {:?} ({} direct statements had been refused)", last_no, cmd, got.chars().take(80).collect::<String>(), want, refused), case);
            }
        }
    }
    Outcome::pass(true, hash_str(item)).with_case(format!("unit {:?}: the largest program that fits has {} units; spare room 0..5 units x 8 direct statements", unit, kmax))
}

// ------------------------------------------------------------------ at the variable limit, zeroing frees a slot

fn gen_full(part: usize, _parts: usize, _th: bool, emit: &mut dyn FnMut(&str)) {
    if part == 0 {
        emit("numeric");
    }
    if part == 1 {
        emit("string");
    }
}

fn check_full(item: &str, _ctx: &Ctx) -> Outcome {
    let (a, b, one, zero) = if item == "string" { ("A$", "B$", "\"x\"", "\"\"") } else { ("A", "B", "1", "0") };
    let mut term = Term::new();
    let mut o = Opts::default();
    o.max_calls = 400_000;
    let prog = vec![
        format!("10 DIM {}(32767),{}(32767)", a, b),
        format!("20 FOR I=0 TO 32767:{}(I)={}:NEXT", a, one),
        format!("30 FOR I=0 TO 32765:{}(I)={}:NEXT", b, one),
    ];
    for l in &prog {
        term.line(l, &mut o);
    }
    term.line("RUN", &mut o);
    let out = flat(&term.take());
    if !out.is_empty() {
        return Outcome::fail("fill-failed", format!("filling 65534 elements (+ the loop variable) printed {:?}", out), item.to_string());
    }
    let case = format!("{}\nRUN  (65534 live elements + I = 65535 live values)", prog.join("\n"));
    // pool is full now (65536 live values). Overwriting, zeroing and re-using must work.
    let steps: Vec<(String, &str)> = vec![
        // the 65536th live value still fits
        (format!("{}(32766)={}", b, one), ""),
        (format!("{}(5)={}", a, if item == "string" { "\"y\"" } else { "2" }), ""),
        (format!("{}(5)={}", a, zero), ""),
        (format!("{}(32767)={}", b, one), ""),
        (format!("PRINT {}(32767);{}(5);\"|\"", b, a), if item == "string" { "x|\n" } else { " 1  0 |\n" }),
        (format!("{}(6)={}:{}(6)={}", a, zero, a, one), ""),
        // a default value needs no slot, also for a name that never had one
        ("ZY=0".to_string(), ""),
        ("ZY$=\"\":ZX%=0:ZW#=0".to_string(), ""),
        (format!("{}(7)={}:PRINT ZY;ZY$;\"|\"", a, one), " 0 |\n"),
    ];
    for (cmd, want) in &steps {
        term.line(cmd, &mut o);
        let evs = term.take();
        if let Some(m) = has_panic(&evs) {
            return Outcome::fail("panic", m, case);
        }
        let got = flat(&evs);
        if got != *want {
            return Outcome::fail_sig(
                "cannot-free-at-the-limit",
                "F21:store-at-limit".into(),
                format!("with 65536 live values, {:?} printed {:?}, expected {:?} (zeroing a variable frees its slot; overwriting needs none)", cmd, got, want),
                case,
            );
        }
    }
    // one more live value than the pool holds must be refused
    term.line("ZZ=1", &mut o);
    let got = flat(&term.take());
    if !got.contains("?OUT OF MEMORY") {
        return Outcome::fail("variable-limit-not-enforced", format!("a 65537th live value was accepted: {:?}", got), case);
    }
    Outcome::pass(true, hash_str(item)).with_case(case)
}


// ------------------------------------------------------------------ direct statements, repeated

/// Stored programs a direct statement is typed against: none, a valid one, and ones the execution
/// gate refuses (a dangling line reference, a syntax error).
const STORES: &[&[&str]] = &[
    &[],
    &["10 DATA 1,2,3", "20 DEF FNA(X)=X+1", "30 Q7=Q7+1", "40 END", "100 Q8=1:RETURN", "110 REM"],
    &["10 PRINT \"P\"", "20 GOTO 99", "30 END", "100 RETURN"],
    &["10 PRINT 1+", "30 END", "100 RETURN"],
    &["10 FOR I=1 TO 2:NEXT J", "20 WEND", "100 RETURN"],
];

/// Direct statements that leave no FOR/GOSUB frame behind by themselves, whether they complete or
/// end in an error.
const DIRECT_UNITS: &[&str] = &[
    "RENUM", "RENUM 100", "RENUM 10,10,10", "RENUM 10,0,10", "RENUM 1,2,0", "RENUM 70000", "LIST", "LIST 10", "LIST 10-20", "LIST -", "DELETE 500-600", "DELETE 99", "DELETE 70000",
    "PRINT 1+2", "PRINT FNA(2)", "GOSUB 100", "ON 1 GOSUB 100", "ON 0 GOSUB 100", "ON 5 GOSUB 100,100", "ON 0 GOTO 100", "ON -1 GOSUB 100", "ON 2 GOTO 100,99",
    "FOR I=1 TO 2:NEXT", "FOR I=1 TO 2:FOR J=1 TO 2:NEXT J,I", "WHILE 0:WEND", "READ A", "READ A,B$", "RESTORE", "RESTORE 10", "RESTORE 99", "NEXT", "NEXT I", "RETURN", "WEND",
    "GOTO 99", "GOSUB 99", "RUN 99", "RUN", "RUN 30", "CONT", "STOP", "END", "CLEAR", "CLEAR 1,2", "CLEAR ,", "TRON", "TROFF", "DIM Q(2):ERASE Q", "ERASE Z", "DIM R(1),R(1)",
    "SWAP A,B", "SWAP A,B$", "MID$(A$,1)=\"x\"", "MID$(A$,0)=\"x\"", "A$=STRING$(300,\"x\")", "A$=STRING$(200,\"x\")+STRING$(200,\"y\")", "A%=40000", "PRINT 1/0", "PRINT 1\\0", "PRINT 2+(3*(4+1\\0))",
    "PRINT \"a\"+(\"b\"+CHR$(-1))", "X=FNZ(1)", "X=FNA(1,2)", "DEF FNB(X)=X", "DATA 1", "INPUT A", "INPUT \"P\";A$,B", "LOAD \"X\"", "SAVE \"X\"", "RUN \"X\"", "CLS", "LET A=1", "IF 1 THEN 99",
    "IF 0 THEN PRINT 1 ELSE PRINT 2", "IF 1 THEN GOSUB 100 ELSE 99", "PRINT TAB(300)", "PRINT LEFT$(\"a\")", "PRINT A(11)", "PRINT A(1,2,3)+A(1)", "PRINT MID$(\"abc\",0)", "PRINT VAL(\"1\")+ASC(\"\")",
    "PRINT INSTR(0,\"a\",\"b\")", "PRINT 1+", "PRINT )", "GOTO", "A=", "A=1+\"x\"", "A$=1", "PRINT 1E38*10", "PRINT 32767+1", "PRINT -32768-1", "PRINT SQR(-1);LOG(0)", "PRINT INKEY$", "PRINT RND(1)*0",
    "PRINT 1,2;3", "?", "REM x", "' x", "LET", "NEW",
];

/// Direct lines that open a loop and then jump into the program: against a program the execution
/// gate refuses, the refusal takes the open frame with it (against a program that runs, the
/// frame would legitimately stay: an abandoned FOR).
const GATED_UNITS: &[&str] = &["FOR I=1 TO 2:GOTO 10", "FOR J=1 TO 2:GOSUB 100:NEXT", "FOR I=1 TO 2:FOR J=1 TO 2:ON 1 GOTO 10", "FOR I=1 TO 2:IF 1 THEN 10", "FOR I=1 TO 2:RUN 10"];

fn check_direct_residue(t: &mut Tape, ctx: &Ctx) -> Outcome {
    let si = t.below(STORES.len());
    let run_first = si == 1 && t.chance(1, 3);
    let n = 1 + t.below(3);
    let mut units = vec![];
    for _ in 0..n {
        if si >= 2 && t.chance(1, 8) {
            units.push(*t.pick(GATED_UNITS));
        } else {
            units.push(*t.pick(DIRECT_UNITS));
        }
    }
    direct_residue(si, run_first, &units.join(":"), ctx)
}

/// Every single unit against every store (items `store|unit index`).
fn gen_direct_cases(part: usize, parts: usize, _th: bool, emit: &mut dyn FnMut(&str)) {
    let mut idx = 0;
    for si in 0..STORES.len() {
        for u in DIRECT_UNITS.iter().chain(GATED_UNITS.iter().filter(|_| si >= 2)) {
            idx += 1;
            if idx % parts == part {
                emit(&format!("{}|{}", si, u));
            }
        }
    }
}

fn check_direct_case(item: &str, ctx: &Ctx) -> Outcome {
    match item.split_once('|') {
        Some((si, line)) => match si.parse::<usize>() {
            Ok(si) if si < STORES.len() => direct_residue(si, false, line, ctx),
            _ => Outcome::discard("bad item"),
        },
        None => Outcome::discard("bad item"),
    }
}

fn direct_residue(si: usize, run_first: bool, line: &str, ctx: &Ctx) -> Outcome {
    let line = line.to_string();
    if line.contains("GOSUB") && line.contains("RENUM") {
        // after a renumbering, line 100 is no longer the subroutine that returns: a GOSUB that
        // runs into END is an abandoned GOSUB, and its frame legitimately stays
        return Outcome::discard("GOSUB beside a RENUM: the target changes its meaning");
    }
    let case = format!("{}\n{}{} (typed repeatedly)", STORES[si].join("\n"), if run_first { "RUN\n" } else { "" }, line);
    crate::runner::note_case(&case);
    let mut term = Term::new();
    let mut o = Opts::default();
    for l in STORES[si] {
        term.line(l, &mut o);
    }
    if run_first {
        term.line("RUN", &mut o);
    }
    term.take();
    let mut depth = vec![];
    let mut first = String::new();
    let mut rep = |term: &mut Term, o: &mut Opts| -> Result<String, String> {
        o.replies = ["1", "x,2"].iter().cycle().take(12).map(|s| s.to_string()).collect();
        term.line(&line, o);
        let got = term.take();
        match has_panic(&got) {
            Some(p) => Err(p),
            None => Ok(flat(&got)),
        }
    };
    for i in 0..10 {
        match rep(&mut term, &mut o) {
            Err(p) => return Outcome::fail("panic", p, case),
            Ok(tx) => {
                if i == 1 {
                    first = tx;
                }
            }
        }
        depth.push(term.rt.verif_probe().stack_len);
    }
    let grows = depth[9] > depth[5] && depth[5] > depth[1];
    if grows {
        // a direct line that costs memory each time it is typed: typed often enough, does the
        // interpreter run out of memory where the same line worked before?
        let per = ((depth[9] - depth[1]) / 8).max(1);
        let reps = 66_000 / per + 50;
        for i in 0..reps {
            match rep(&mut term, &mut o) {
                Err(p) => return Outcome::fail("panic", p, case),
                Ok(tx) => {
                    if tx.contains("OUT OF MEMORY") && !first.contains("OUT OF MEMORY") {
                        return Outcome::fail(
                            "repeated-direct-statement-ran-out-of-memory",
                            format!("the value stack grows by {} with every repetition (depths {:?}); repetition {} answers\n{}\nwhere the second answered\n{}", per, depth, i + 11, tx, first),
                            case,
                        );
                    }
                }
            }
        }
    }
    // afterwards the session is usable
    let after = term.lines_flat(&["PRINT 1+1"]);
    if after != " 2 \n" {
        return Outcome::fail("session-not-usable", format!("PRINT 1+1 afterwards gives {:?}", after), case);
    }
    let nt = si >= 2 || first.starts_with('?') || grows;
    let mut labels = vec![];
    if si >= 2 {
        labels.push("the stored program is refused by the execution gate");
    }
    if first.starts_with('?') {
        labels.push("the direct line ends in an error");
    }
    if grows {
        labels.push("stack depth grows with repetitions, yet 66 000 repetitions stay within memory");
    }
    let oc = Outcome::pass(nt, hash_str(&case)).with_labels(labels);
    if ctx.render {
        oc.with_case(format!("{}\n(stack depths after repetitions 1..10: {:?})", case, depth))
    } else {
        oc
    }
}

pub fn property() -> Property {
    Property {
        id: "C18",
        rule: "Cases: (residue) proptest-generated terminating programs of the fragment (FOR/NEXT incl. NEXT of an outer variable, WHILE/WEND, GOSUB into subroutines that leave loops by RETURN, ON..GOTO/GOSUB in and out of range, IF/ELSE, INPUT with replies, FN calls, READ/RESTORE, DIM'd arrays, SWAP, MID$=) wrapped in a GOTO loop of 60 iterations; \
the verif-hooks probe reads the value-stack depth at every loop head: it must be identical from iteration 2 on; (long_run) the same construction iterated 70 000 times (> 65 536) through the public API only: no OUT OF MEMORY; \
(var_slots) sequences of assignments that set scalars and array elements of every type to a value and back to 0 / empty (also by expressions evaluating to 0): the number of stored values equals the number of variables holding a non-default value after every step; (full_pool) with 65 536 live values, overwriting, zeroing and re-using a slot work and a 65 537th value is refused; \
(limits) 16 scenarios driving every pool past its limit: runaway GOSUB (program and direct mode), FN recursion (direct and mutual), ON..GOSUB recursion, FOR re-entered by GOTO, > 65 536 live numeric / string elements, > 65 536 DATA values, > 65 536 instructions, 1024-byte lines of parentheses / minus signs / nested IFs, string doubling: OUT OF MEMORY where a pool overflows, no panic, pools never beyond 65 536 + 64, and afterwards PRINT 1+1, NEW, a fresh program and an assignment work. \
(direct_residue) one to three direct statements from a pool of ~110 (editing commands, jumps, loops, errors in mid-expression, refused forms) typed ten times against no program, a valid one and programs the execution gate refuses; where the probe shows the value stack growing with every repetition the line is typed up to 66 000 more times: it must never answer OUT OF MEMORY where it did not at first, and PRINT 1+1 works afterwards. \
Non-trivial: the body contains a frame-pushing statement / a pool reached its limit / the direct line errs or the program is refused. Distinct by program / scenario.",
        assumptions: vec![
            "an abandoned FOR loop or GOSUB legitimately stays on the stack (that is the documented stack behaviour); residue bodies therefore never leave loops by GOTO and END inside a subroutine is turned into RETURN",
            "bodies that raise a BASIC error in some iteration (accumulating overflow, OUT OF DATA) are discarded: the statement speaks of terminating statement sequences",
        ],
        subs: vec![
            Sub::items("limits", gen_limits, check_limit, false).wedge(300),
            Sub::items("full_pool", gen_full, check_full, false).wedge(300),
            Sub::items("code_boundary", gen_boundary, check_boundary, false).wedge(600),
            Sub::tape("var_slots", check_var_slots, 100_000, 2_000_000, 60),
            Sub::tape("residue", check_residue, 40_000, 1_000_000, 700).wedge(120),
            Sub::tape("long_run", check_long_run, 320, 6000, 700).wedge(600),
            Sub::items("direct_cases", gen_direct_cases, check_direct_case, false).wedge(600),
            Sub::tape("direct_residue", check_direct_residue, 6000, 120_000, 40).wedge(600),
        ],
    }
}
