//! C16 — spelling variants of a line mean the same.
//! Metamorphic oracle: every spelling of a program lists (tight variants) / parses (all
//! variants) / runs like the canonical spelling.

use crate::astnorm::meaning;
use crate::bast::*;
use crate::drive::{flat, has_panic, End, Opts, Term};
use crate::expr::{Tok, TK};
use crate::gen::{self, GenOpts};
use crate::runner::{Ctx, Outcome, Property, Sub};
use crate::tape::{hash_str, Tape};

/// Reserved words (manual: statements of chapter 2 and the word operators), longest first.
const RESERVED: &[&str] = &[
    "RESTORE", "DEFDBL", "DEFINT", "DEFSNG", "DEFSTR", "DELETE", "RETURN", "CLEAR", "ERASE", "GOSUB", "INPUT", "PRINT", "RENUM", "TROFF", "WHILE", "CONT", "DATA", "ELSE", "GOTO", "NEXT", "LIST", "LOAD", "READ",
    "SAVE", "STEP", "STOP", "SWAP", "THEN", "TRON", "WEND", "AND", "CLS", "DEF", "DIM", "END", "EQV", "FOR", "IMP", "LET", "MOD", "NEW", "NOT", "REM", "RUN", "XOR", "IF", "ON", "OR", "TO",
];

/// How a run of letters is split at reserved words: leftmost reserved word first, longest on ties.
fn scan_words(s: &str) -> Vec<String> {
    let mut out = vec![];
    let mut rest = s.to_string();
    loop {
        let mut best: Option<(usize, &str)> = None;
        for w in RESERVED {
            if let Some(i) = rest.find(w) {
                if best.map_or(true, |(bi, _)| i < bi) {
                    best = Some((i, w));
                }
            }
        }
        match best {
            None => {
                if !rest.is_empty() {
                    out.push(rest);
                }
                return out;
            }
            Some((i, w)) => {
                if i > 0 {
                    out.push(rest[..i].to_string());
                }
                out.push(w.to_string());
                rest = rest[i + w.len()..].to_string();
            }
        }
    }
}

fn letters_only(s: &str) -> bool {
    !s.is_empty() && s.chars().all(|c| c.is_ascii_alphabetic())
}

/// May the blank between two adjacent word-like tokens be dropped without changing the tokens?
/// Conservative: when in doubt, no.
fn may_glue(l: &Tok, ltext: &str, r: &Tok, rtext: &str) -> bool {
    // "GO TO" counts by its last / first word
    let lu = ltext.rsplit(' ').next().unwrap_or("").to_ascii_uppercase();
    let ru = rtext.split(' ').next().unwrap_or("").to_ascii_uppercase();
    if lu.is_empty() || ru.is_empty() {
        return false;
    }
    let wordish = |k: TK| matches!(k, TK::Kw | TK::Ident);
    let numish = |k: TK| matches!(k, TK::Num | TK::LineRef);
    if l.kind == TK::Str || r.kind == TK::Str {
        return true;
    }
    if wordish(l.kind) && wordish(r.kind) {
        if l.kind == TK::Ident && r.kind == TK::Ident {
            return false;
        }
        let last = lu.chars().last().unwrap();
        if "$%!#".contains(last) {
            return true; // a type suffix ends the identifier
        }
        if last.is_ascii_digit() {
            return r.kind == TK::Kw; // an identifier holding a digit ends at the next letter
        }
        let rhead: String = ru.chars().take_while(|c| c.is_ascii_alphabetic()).collect();
        if !letters_only(&lu) || rhead.is_empty() {
            return false;
        }
        if scan_words(&lu) != vec![lu.clone()] || scan_words(&rhead) != vec![rhead.clone()] {
            return false;
        }
        return scan_words(&format!("{}{}", lu, rhead)) == vec![lu.clone(), rhead];
    }
    if l.kind == TK::Kw && numish(r.kind) {
        // the SUB of GO SUB is an identifier to the lexer: digits would extend it
        if ltext.contains(' ') && lu == "SUB" {
            return false;
        }
        return letters_only(&lu) && scan_words(&lu) == vec![lu.clone()];
    }
    if numish(l.kind) && r.kind == TK::Kw {
        // not behind a radix literal: its digits may swallow letters
        return !lu.starts_with('&') && letters_only(&ru);
    }
    false
}

fn random_case(t: &mut Tape, s: &str) -> String {
    s.chars().map(|c| if c.is_ascii_uppercase() && t.chance(1, 2) { c.to_ascii_lowercase() } else { c }).collect()
}

#[derive(Default)]
struct Kinds {
    case: bool,
    glued: bool,
    question: bool,
    go_to: bool,
    rel: bool,
    blanks: bool,
    let_: bool,
    rem: bool,
}

impl Kinds {
    fn count(&self) -> usize {
        [self.case, self.glued, self.question, self.go_to, self.rel, self.blanks, self.let_, self.rem].iter().filter(|x| **x).count()
    }
}

/// One spelling of a token list. `tight`: lists identically to the canonical text.
fn spell(t: &mut Tape, toks: &[Tok], tight: bool, k: &mut Kinds, changes: &mut usize) -> String {
    // optional LET (loose only): drop it
    let mut toks: Vec<Tok> = toks.to_vec();
    if !tight {
        let mut i = 0;
        while i < toks.len() {
            if toks[i].kind == TK::Kw && toks[i].s == "LET" && t.chance(1, 2) {
                toks.remove(i);
                k.let_ = true;
                *changes += 1;
                continue;
            }
            i += 1;
        }
    }
    let mut texts: Vec<String> = vec![];
    for tok in &toks {
        let s = match tok.kind {
            TK::Kw => {
                let w = tok.s.as_str();
                if w == "PRINT" && t.chance(1, 3) {
                    k.question = true;
                    *changes += 1;
                    "?".to_string()
                } else if w == "GOTO" && t.chance(1, 3) {
                    k.go_to = true;
                    *changes += 1;
                    format!("{}{}{}", random_case(t, "GO"), if t.chance(1, 3) { "  " } else { " " }, random_case(t, "TO"))
                } else if w == "GOSUB" && t.chance(1, 3) {
                    k.go_to = true;
                    *changes += 1;
                    format!("{} {}", random_case(t, "GO"), random_case(t, "SUB"))
                } else if w == "REM" && !tight && t.chance(1, 3) {
                    k.rem = true;
                    *changes += 1;
                    "'".to_string()
                } else if w == "'" && !tight && t.chance(1, 3) {
                    k.rem = true;
                    *changes += 1;
                    random_case(t, "REM")
                } else {
                    let c = random_case(t, w);
                    if c != w {
                        k.case = true;
                        *changes += 1;
                    }
                    c
                }
            }
            TK::Ident | TK::Num => {
                let c = random_case(t, &tok.s);
                if c != tok.s {
                    k.case = true;
                    *changes += 1;
                }
                c
            }
            TK::Punct => {
                let v: &[&str] = match tok.s.as_str() {
                    "<=" => &["<=", "=<", "< =", "= <", "<  ="],
                    ">=" => &[">=", "=>", "> =", "= >"],
                    "<>" => &["<>", "< >", "<  >"],
                    _ => &[],
                };
                if v.is_empty() {
                    tok.s.clone()
                } else {
                    let c = t.pick(v).to_string();
                    if c != tok.s {
                        k.rel = true;
                        *changes += 1;
                    }
                    c
                }
            }
            _ => tok.s.clone(),
        };
        texts.push(s);
    }
    let mut out = String::new();
    for i in 0..toks.len() {
        if i > 0 {
            let (l, r) = (&toks[i - 1], &toks[i]);
            let both = l.wordlike() && r.wordlike();
            // a remark's text starts right behind REM / '
            let into_rem = r.kind == TK::Rem;
            // `?`, `'` replace word-like keywords by punctuation: no blank needed there
            let ltext = &texts[i - 1];
            let rtext = &texts[i];
            let l_word = both && ltext != "?" && ltext != "'";
            let r_word = both && rtext != "?" && rtext != "'";
            if into_rem {
                // nothing
            } else if l_word && r_word {
                if t.chance(1, 2) && may_glue(l, ltext, r, rtext) {
                    k.glued = true;
                    *changes += 1;
                } else {
                    out.push(' ');
                    if !tight && t.chance(1, 4) {
                        out.push(' ');
                        k.blanks = true;
                        *changes += 1;
                    }
                }
            } else if both {
                // one side became punctuation: the lister re-inserts the blank for ' only
                if rtext == "'" && t.chance(1, 2) {
                    out.push(' ');
                }
            } else if !tight && t.chance(1, 5) && l.kind != TK::Rem {
                out.push_str(if t.chance(1, 2) { " " } else { "  " });
                k.blanks = true;
                *changes += 1;
            }
        }
        out.push_str(&texts[i]);
    }
    out
}

fn run_texts(texts: &[String], replies: &[String]) -> Option<(Vec<String>, String)> {
    let mut term = Term::new();
    let mut o = Opts::default();
    o.replies = replies.iter().cloned().collect();
    o.max_calls = 5000;
    for l in texts {
        term.enter_raw(l);
        term.run(&mut o);
    }
    let pre = term.take();
    if has_panic(&pre).is_some() {
        return None;
    }
    let listing = term.listing_text();
    let end = term.line("RUN", &mut o);
    let mut s = format!("{}{}", flat(&pre), flat(&term.take()));
    if end != End::Stopped {
        return Some((listing, "«not stopped»".to_string()));
    }
    term.line("PRINT A;B;C;A%;B%;A#;X;Y%;A$;B$;S$;I;J%;K", &mut o);
    s.push_str(&flat(&term.take()));
    Some((listing, s))
}

fn check_spellings(t: &mut Tape, ctx: &Ctx) -> Outcome {
    let mut o = GenOpts::full();
    o.tron = false;
    o.size = 16;
    let g = gen::program(t, &o);
    let canon = g.prog.texts();
    let case0 = canon.join("\n");
    crate::runner::note_case(&case0);
    let base = match run_texts(&canon, &g.replies) {
        Some(x) => x,
        None => return Outcome::fail("panic", "canonical program panicked".into(), case0),
    };
    if base.1 == "«not stopped»" {
        return Outcome::discard("program does not finish within the budget");
    }
    if base.0 != canon {
        return Outcome::fail("canonical-text-not-listed-verbatim", format!("{:?}", base.0), case0);
    }
    let mut nontrivial = false;
    let mut labels: Vec<&'static str> = vec![];
    let nvar = if ctx.thorough { 8 } else { 4 };
    for v in 0..nvar {
        let tight = v % 2 == 0;
        let mut k = Kinds::default();
        let mut changes = 0;
        let mut texts = vec![];
        for l in &g.prog.lines {
            let mut toks = vec![];
            stmts_tokens(&l.stmts, &mut toks);
            let body = spell(t, &toks, tight, &mut k, &mut changes);
            let sep = if tight || t.chance(2, 3) { " " } else { "  " };
            // the number may be glued to the text when the text does not start with a digit
            let glue_num = t.chance(1, 4) && !body.starts_with(|c: char| c.is_ascii_digit() || c == '.' || c == ' ');
            let line_text = if glue_num && tight { format!("{}{}", l.num, body) } else { format!("{}{}{}", l.num, sep, body) };
            if line_text.len() > 1000 {
                return Outcome::discard("line too long");
            }
            texts.push(line_text);
        }
        let case = format!("{}\n--- {} spelling:\n{}\nreplies {:?}", case0, if tight { "tight" } else { "loose" }, texts.join("\n"), g.replies);
        // every line parses to the generator's tree
        for (l, text) in g.prog.lines.iter().zip(texts.iter()) {
            let want = crate::bastnorm::stmts(&l.stmts);
            match meaning(&basic::lang::Line::new(text)) {
                Ok(got) => {
                    if got != want {
                        return Outcome::fail("spelling-changes-meaning", format!("{:?}\n  parses to {}\n  canonical  {}", text, got, want), case);
                    }
                }
                Err(e) => return Outcome::fail("spelling-rejected", format!("{:?} is rejected: {}", text, e), case),
            }
        }
        let got = match run_texts(&texts, &g.replies) {
            Some(x) => x,
            None => return Outcome::fail("panic", "variant panicked".into(), case),
        };
        // the same lines read from a file (optional blanks in front of the line number included)
        // give the same stored program
        {
            let mut l = basic::mach::Listing::default();
            for text in &texts {
                let lead = *t.pick(&["", "", " ", "  ", "\t"]);
                if let Err(e) = l.load_str(&format!("{}{}", lead, text)) {
                    return Outcome::fail("spelling-rejected", format!("the loader refuses {:?}{:?}: {}", lead, text, e), case);
                }
            }
            let loaded: Vec<String> = l.lines().map(|x| x.to_string()).collect();
            if loaded != got.0 {
                return Outcome::fail("spelling-changes-listing", format!("typed, the program lists as {:?}; loaded from a file as {:?}", got.0, loaded), case);
            }
        }
        if tight && got.0 != canon {
            let mut diff = String::new();
            for (a, b) in got.0.iter().zip(canon.iter()) {
                if a != b {
                    diff.push_str(&format!("  lists {:?}\n  canon {:?}\n", a, b));
                }
            }
            return Outcome::fail("spelling-changes-listing", diff, case);
        }
        if got.1 != base.1 {
            return Outcome::fail("spelling-changes-behaviour", format!("variant:\n{}\ncanonical:\n{}", got.1, base.1), case);
        }
        if changes >= 3 && k.count() >= 2 {
            nontrivial = true;
        }
        if k.glued {
            labels.push("keywords glued to neighbours");
        }
        if k.rel {
            labels.push("relational operator re-spelled");
        }
        if k.go_to {
            labels.push("GO TO / GO SUB");
        }
        if k.question {
            labels.push("? for PRINT");
        }
        if k.let_ {
            labels.push("LET dropped");
        }
        if k.rem {
            labels.push("REM <-> '");
        }
    }
    labels.sort();
    labels.dedup();
    let o2 = Outcome::pass(nontrivial, hash_str(&case0)).with_labels(labels);
    if ctx.render {
        o2.with_case(case0)
    } else {
        o2
    }
}

// ------------------------------------------------------------------ literal pairs

const PAIRS: &[(&str, &str)] = &[
    ("10 fori=1to10step2:?i;:nexti", "10 FOR I=1 TO 10 STEP 2:PRINT I;:NEXT I"),
    ("10 go to 20:go  sub 30", "10 GOTO 20:GOSUB 30"),
    ("10 ifa=<bthen20else30", "10 IF A<=B THEN 20 ELSE 30"),
    ("10 IF A= >B OR A< >B OR A> =B THEN ?1", "10 IF A>=B OR A<>B OR A>=B THEN PRINT 1"),
    ("10 a=&hff+1e2+1d2", "10 A=&HFF+1E2+1D2"),
    ("10 x=aandb:y=notc", "10 X=AANDB:Y=NOTC"),
    ("10 printa$;\"x\"b$", "10 PRINT A$;\"x\" B$"),
    ("10 ongoto1,2", "10 ON GOTO 1,2"),
    ("10 onxgoto1,2:onxgosub3", "10 ON X GOTO 1,2:ON X GOSUB 3"),
    ("10 defint a-c:deffna(x)=x", "10 DEFINT A-C:DEF FNA(X)=X"),
    ("10 ?1else2", "10 PRINT 1 ELSE 2"),
];

fn gen_pairs(part: usize, parts: usize, _th: bool, emit: &mut dyn FnMut(&str)) {
    for (i, (a, _)) in PAIRS.iter().enumerate() {
        if i % parts == part {
            emit(a);
        }
    }
}

fn check_pair(item: &str, _ctx: &Ctx) -> Outcome {
    let want = match PAIRS.iter().find(|(a, _)| *a == item) {
        Some((_, b)) => b.to_string(),
        None => match item.rsplit_once("\n=> ") {
            Some((_, w)) => w.to_string(),
            None => return Outcome::discard("no expectation"),
        },
    };
    let src = item.rsplit_once("\n=> ").map(|(p, _)| p).unwrap_or(item);
    let a = basic::lang::Line::new(src);
    let b = basic::lang::Line::new(&want);
    let (ma, mb) = (meaning(&a), meaning(&b));
    if a.to_string() != b.to_string() {
        // the expectation may itself be non-canonical for rejected lines; compare meanings too
        if ma.is_ok() || mb.is_ok() {
            return Outcome::fail("spelling-pair-lists-differently", format!("{:?} lists as {:?}, {:?} lists as {:?}", src, a.to_string(), want, b.to_string()), item.to_string());
        }
    }
    if ma != mb {
        return Outcome::fail("spelling-pair-meaning", format!("{:?} -> {:?}\n{:?} -> {:?}", src, ma, want, mb), item.to_string());
    }
    Outcome::pass(true, hash_str(item)).with_case(format!("{:?} == {:?}", src, want))
}

pub fn property() -> Property {
    Property {
        id: "C16",
        rule: "Cases: proptest-generated programs of the fragment, each rendered canonically and in 4 (thorough 8) random spellings; every spelled line is typed and also read through the loader with optional blanks or a tab in front of its number: tight variants (random letter case in keywords, identifiers, exponent and radix letters; blanks between word-like tokens dropped where the run of letters still splits into the same words; ? for PRINT; GO TO, GO SUB; =< => and blanks inside <= >= <>; line number glued to the text) \
and loose variants (additionally: extra blanks between any two tokens, LET dropped, REM <-> '). Oracle (metamorphic): every variant line parses to the generator's tree (column-free AST), tight variants LIST exactly like the canonical program, every variant's RUN transcript and final variables equal the canonical ones. \
Non-trivial: a variant differs from the canonical text in >= 3 places of >= 2 kinds. Distinct by canonical program. Literal pairs from the repository's lexer tests are checked as well.",
        assumptions: vec![
            "blanks are only dropped where the harness's own reading of the reserved-word list says the letters still split the same way (conservative may_glue)",
            "`><` for <> is not among the documented alternative spellings and is not generated",
        ],
        subs: vec![Sub::items("literal_pairs", gen_pairs, check_pair, false), Sub::tape("program_spellings", check_spellings, 60_000, 1_500_000, 1400)],
    }
}
