//! C13 — interrupt, STOP and END are transparent under CONT; slicing does not matter.
//! Differential oracle (same implementation, different schedule): U = uninterrupted run.

use crate::bast::*;
use crate::drive::{flat, has_panic, printed, End, Ev, Opts, Term};
use crate::expr::*;
use crate::gen::{self, GenOpts, Generated};
use crate::runner::{Ctx, Outcome, Property, Sub};
use crate::tape::{hash_str, Tape};

fn probes_text(g: &Generated) -> Vec<String> {
    g.probes
        .chunks(6)
        .map(|c| {
            let mut items = vec![];
            for e in c {
                items.push(PItem::Expr(e.clone()));
                items.push(PItem::Semi);
                items.push(PItem::Expr(E::Str("|".into())));
                items.push(PItem::Semi);
            }
            render_stmts(&[Stmt::Print(items)])
        })
        .collect()
}

fn load(texts: &[String]) -> Term {
    let mut term = Term::new();
    let mut o = Opts::default();
    for l in texts {
        term.enter_raw(l);
        term.run(&mut o);
    }
    term.take();
    term
}

struct Base {
    events: Vec<Ev>,
    finals: String,
    calls_q1: usize,
    /// how the measured run is started: RUN, or (after a stale break left by `prelude`) GOTO first line
    start_cmd: String,
    prelude: Option<String>,
}

/// Uninterrupted run with a fixed quantum; None when it does not finish within the budget.
fn baseline(texts: &[String], replies: &[String], probes: &[String], quantum: usize, quanta: &[usize]) -> Option<(Vec<Ev>, String, usize)> {
    let mut term = load(texts);
    let mut o = Opts::default();
    o.quantum = quantum;
    o.quanta = quanta.to_vec();
    o.replies = replies.iter().cloned().collect();
    // an instruction budget, not a call budget: generated programs may loop forever
    let q = if quanta.is_empty() { quantum.max(1) } else { 1 };
    o.max_calls = 2_000_000 / q + 6000;
    let before = term.calls;
    let end = term.line("RUN", &mut o);
    let calls = term.calls - before;
    if end != End::Stopped {
        return None;
    }
    let ev = term.take();
    let mut fin = String::new();
    for p in probes {
        term.line(p, &mut o);
        fin.push_str(&flat(&term.take()));
    }
    Some((ev, fin, calls))
}

/// Program output is compared up to the newline that the prompt adds when the cursor is left
/// mid-line at the very end (the break's forced newline may have moved the cursor home).
fn same_output(got: &str, want: &str) -> bool {
    if got == want {
        return true;
    }
    let g = got.trim_end_matches('\n');
    let w = want.trim_end_matches('\n');
    g == w && (got.len() as i64 - want.len() as i64).abs() <= 1
}

fn prompts(evs: &[Ev]) -> Vec<String> {
    evs.iter().filter_map(|e| if let Ev::Prompt(p, c) = e { Some(format!("{}|{}", p, c)) } else { None }).collect()
}

fn errors(evs: &[Ev]) -> Vec<String> {
    evs.iter().filter_map(|e| if let Ev::Errs(v) = e { Some(v.join("/")) } else { None }).collect()
}

/// Run with an interrupt after k single-instruction execute calls (or at the j-th INPUT wait),
/// then CONT. Returns Err(clause, detail) on a transparency violation; Ok(None) when the point is
/// outside the statement (program already ended / RUN itself still executing).
fn interrupted(texts: &[String], replies: &[String], probes: &[String], base: &Base, k: usize, at_input: Option<usize>, inspect: Option<&str>) -> Result<Option<bool>, (String, String)> {
    let mut term = load(texts);
    let mut o = Opts::default();
    o.quantum = 1;
    o.replies = replies.iter().cloned().collect();
    o.interrupt_on_starved_input = false;
    if let Some(p) = &base.prelude {
        // an earlier break that is never continued: the run below is started beside it
        term.line(p, &mut o);
        term.take();
    }
    term.enter_raw(&base.start_cmd);
    let mut n = 0;
    let mut inputs_seen = 0;
    let mut nontrivial = false;
    let mut in_input_wait = false;
    loop {
        if at_input.is_none() && n == k {
            break;
        }
        if let Some(j) = at_input {
            // peek: stop replying at the j-th prompt
            if inputs_seen == j {
                // drive until the next Input event without answering it
                let saved: Vec<String> = o.replies.drain(..).collect();
                let mut guard = 0;
                loop {
                    let stopped = term.step(&mut o);
                    guard += 1;
                    if matches!(term.log.last(), Some(Ev::Prompt(_, _))) {
                        in_input_wait = true;
                        break;
                    }
                    if stopped || guard > 2_000_000 {
                        break;
                    }
                }
                o.replies = saved.into_iter().collect();
                if !in_input_wait {
                    return Ok(None);
                }
                break;
            }
        }
        let before = term.log.len();
        let stopped = term.step(&mut o);
        if term.log[before.min(term.log.len())..].iter().any(|e| matches!(e, Ev::Reply(_))) {
            inputs_seen += 1;
        }
        if stopped {
            return Ok(None); // the program ended before the chosen point
        }
        n += 1;
        if n > 2_000_000 {
            return Ok(None);
        }
    }
    let pr = term.rt.verif_probe();
    if !pr.in_program && !in_input_wait {
        return Ok(None); // still inside the direct RUN, or already back in direct code
    }
    if pr.state != "Running" && pr.state != "Input" && pr.state != "InputRunning" && !in_input_wait {
        // an error or the end is already pending: CONT after an error is outside the statement
        return Ok(None);
    }
    if pr.stack_len > 0 || in_input_wait {
        nontrivial = true;
    }
    let p_ev = term.take();
    // when the prompt is already showing, the repeated prompt after CONT is the allowed difference
    term.interrupt();
    o.interrupt_on_starved_input = true;
    term.run(&mut o);
    let b_ev = term.take();
    if let Some(m) = has_panic(&b_ev) {
        return Err(("panic".into(), m));
    }
    // exactly: [forced newline] + ?BREAK IN n
    let b_flat = flat(&b_ev);
    let b_ok = {
        let t = b_flat.strip_prefix("«^C»").unwrap_or(&b_flat);
        let t = t.strip_prefix('\n').unwrap_or(t);
        t.starts_with("?BREAK IN ") && t.ends_with('\n') && t.matches('\n').count() == 1
    };
    if !b_ok {
        return Err(("break-message".into(), format!("k={} at_input={:?}: after interrupt() the runtime printed {:?}", k, at_input, b_flat)));
    }
    // "the line break it forces": with the cursor in mid-line the message starts on a fresh line
    {
        let t = b_flat.strip_prefix("«^C»").unwrap_or(&b_flat);
        if pr.print_col > 0 && !in_input_wait && !t.starts_with('\n') {
            return Err(("break-message".into(), format!("k={}: the cursor stood in column {} and the break message was not put on a fresh line: {:?}", k, pr.print_col, b_flat)));
        }
    }
    if let Some(line) = inspect {
        term.line(line, &mut o);
        term.take();
    }
    // the rest of the run gets the same instruction budget as the uninterrupted run (single
    // stepping was only needed up to the break); a run that does not finish decides nothing
    o.quantum = 1000;
    o.max_calls = 2_000_000 / 1000 + 6000;
    let end = term.line("CONT", &mut o);
    let s_ev = term.take();
    if let Some(m) = has_panic(&s_ev) {
        return Err(("panic".into(), m));
    }
    if end != End::Stopped {
        return Ok(None);
    }
    let want = printed(&base.events);
    let got = format!("{}{}", printed(&p_ev), printed(&s_ev));
    if !same_output(&got, &want) {
        return Err((
            "output-differs-after-cont".into(),
            format!("k={} at_input={:?} (vm state {:?}, stack {}): output before the break + output after CONT\n{:?}\nuninterrupted run\n{:?}", k, at_input, pr.state, pr.stack_len, got, want),
        ));
    }
    let mut pp = prompts(&p_ev);
    let ps = prompts(&s_ev);
    if in_input_wait {
        // one repeated prompt at the break
        if pp.last() != ps.first() {
            return Err(("prompt-not-repeated".into(), format!("k={} at_input={:?}: prompt before break {:?}, after CONT {:?}", k, at_input, pp.last(), ps.first())));
        }
        pp.pop();
    }
    pp.extend(ps);
    if pp != prompts(&base.events) {
        return Err(("prompts-differ".into(), format!("k={} at_input={:?}: prompts {:?}, uninterrupted {:?}", k, at_input, pp, prompts(&base.events))));
    }
    let mut e = errors(&p_ev);
    e.extend(errors(&s_ev));
    if e != errors(&base.events) {
        return Err(("errors-differ".into(), format!("k={} at_input={:?}: errors {:?}, uninterrupted {:?}", k, at_input, e, errors(&base.events))));
    }
    let mut fin = String::new();
    for p in probes {
        term.line(p, &mut o);
        fin.push_str(&flat(&term.take()));
    }
    if fin != base.finals {
        return Err(("final-state-differs".into(), format!("k={} at_input={:?}: final variables\n{:?}\nuninterrupted\n{:?}", k, at_input, fin, base.finals)));
    }
    Ok(Some(nontrivial))
}

/// enter(cmd) and drive to Stopped, watching (through the probe) whether a pending error will
/// force a newline because the cursor is mid-line.
fn run_segment(term: &mut Term, cmd: &str, o: &mut Opts) -> (Vec<Ev>, End, bool) {
    term.enter_raw(cmd);
    let mut forced = false;
    let mut n = 0;
    loop {
        if term.dead {
            return (term.take(), End::Panic, forced);
        }
        let stopped = term.step(o);
        if !term.dead {
            let pr = term.rt.verif_probe();
            if pr.state == "RuntimeError" && pr.print_col > 0 {
                forced = true;
            }
        }
        if stopped {
            return (term.take(), End::Stopped, forced);
        }
        n += 1;
        if n > o.max_calls {
            term.interrupt();
            let mut o2 = Opts::default();
            term.run(&mut o2);
            return (term.take(), End::Budget, forced);
        }
    }
}

fn case_text(g: &Generated) -> String {
    format!("{}\n> RUN\nreplies: {:?}", g.prog.text(), g.replies)
}

fn gen_plain(t: &mut Tape) -> Generated {
    let mut o = GenOpts::plain();
    o.size = 16;
    gen::program(t, &o)
}

fn check_interrupt_points(t: &mut Tape, ctx: &Ctx) -> Outcome {
    let g = gen_plain(t);
    let mut texts = g.prog.texts();
    let probes = probes_text(&g);
    let mut case = case_text(&g);
    // a third of the cases start the run with GOTO <first line> while an older break (a STOP
    // reached by a direct GOTO and never continued) is still pending
    let mut start_cmd = "RUN".to_string();
    let mut prelude = None;
    if t.chance(1, 3) && g.prog.lines.iter().all(|l| l.num < 65000) && !g.prog.lines.is_empty() {
        texts.push("65528 END".to_string());
        texts.push("65529 STOP".to_string());
        prelude = Some("GOTO 65529".to_string());
        start_cmd = format!("GOTO {}", g.prog.lines[0].num);
        case.push_str(&format!("\n65528 END\n65529 STOP\n(first GOTO 65529 -> ?BREAK, never continued; the measured run is started with {})", start_cmd));
    }
    crate::runner::note_case(&case);
    let (ev, fin, calls) = match baseline(&texts, &g.replies, &probes, 1, &[]) {
        Some(x) => x,
        None => return Outcome::discard("program does not finish within the budget"),
    };
    if let Some(m) = has_panic(&ev) {
        return Outcome::fail("panic", m, case);
    }
    let stale = prelude.is_some();
    let base = Base { events: ev, finals: fin, calls_q1: calls, start_cmd, prelude };
    // every k when the run is short, else a sample; plus every INPUT wait
    let mut ks: Vec<usize> = vec![];
    let limit = if ctx.thorough { 400 } else { 120 };
    if base.calls_q1 <= limit {
        ks = (0..base.calls_q1).collect();
    } else {
        for _ in 0..limit {
            ks.push(t.below(base.calls_q1));
        }
        ks.sort();
        ks.dedup();
    }
    let mut nontrivial = 0;
    let mut tried = 0;
    // looking at variables between the break and CONT, including a mistyped line that is refused
    // at compile time and therefore executes nothing
    // (an over-long line is refused as a whole by the line buffer and executes nothing either)
    let too_long = format!("PRINT A{}", ";A".repeat(520));
    let inspect = match t.below(10) {
        0 | 1 => Some("PRINT A;B%;A$;I"),
        // looking at the program (on the screen, or writing it out) is no edit either
        6 => Some("LIST 10-30:PRINT A"),
        7 => Some("SAVE \"X\""),
        2 => Some("PRINT A+"),
        3 => Some("PRINT A;:GOTO 64990"),
        4 => Some(too_long.as_str()),
        // a variable-dump subroutine of the program called from the prompt (it only prints, and
        // returns to the prompt)
        5 if g.prog.lines.iter().all(|l| l.num < 64000) => Some("GOSUB 64999"),
        _ => None,
    };
    if inspect == Some("GOSUB 64999") {
        texts.push("64998 END".to_string());
        texts.push("64999 PRINT A;B%;A$;I:RETURN".to_string());
    }
    for k in ks {
        match interrupted(&texts, &g.replies, &probes, &base, k, None, inspect) {
            Err((c, d)) => return Outcome::fail(&c, d, case),
            Ok(None) => {}
            Ok(Some(nt)) => {
                tried += 1;
                if nt {
                    nontrivial += 1
                }
            }
        }
    }
    let n_inputs = base.events.iter().filter(|e| matches!(e, Ev::Reply(_))).count();
    for j in 0..n_inputs.min(4) {
        match interrupted(&texts, &g.replies, &probes, &base, 0, Some(j), inspect) {
            Err((c, d)) => return Outcome::fail(&c, d, case),
            Ok(None) => {}
            Ok(Some(_)) => {
                tried += 1;
                nontrivial += 1;
            }
        }
    }
    let mut labels = vec![];
    if n_inputs > 0 {
        labels.push("interrupt in the INPUT wait");
    }
    if base.calls_q1 <= limit {
        labels.push("every interruption point of the run tried");
    }
    if inspect.is_some() {
        labels.push("variables inspected between break and CONT");
    }
    if stale {
        labels.push("run started by GOTO beside an older, never continued break");
    }
    if tried == 0 {
        return Outcome::discard("no interruption point inside the program");
    }
    let o = Outcome::pass(nontrivial > 0, hash_str(&case)).with_labels(labels);
    if ctx.render {
        o.with_case(format!("{}\n({} interruption points tried, {} inside a statement or frame)", case, tried, nontrivial))
    } else {
        o
    }
}

// ------------------------------------------------------------------ quantum independence

fn check_quanta(t: &mut Tape, ctx: &Ctx) -> Outcome {
    let mut o = GenOpts::full();
    o.stop = false;
    let g = gen::program(t, &o);
    let texts = g.prog.texts();
    let probes = probes_text(&g);
    let case = case_text(&g);
    crate::runner::note_case(&case);
    let (ev, fin, _) = match baseline(&texts, &g.replies, &probes, 5000, &[]) {
        Some(x) => x,
        None => return Outcome::discard("program does not finish within the budget"),
    };
    let mut nt = false;
    for q in [1usize, 2, 3, 5, 7, 64, 4999] {
        match baseline(&texts, &g.replies, &probes, q, &[]) {
            None => return Outcome::fail("quantum-changes-termination", format!("with quantum {} the program does not finish, with 5000 it does", q), case),
            Some((e2, f2, calls)) => {
                if e2 != ev || f2 != fin {
                    return Outcome::fail("quantum-changes-behaviour", format!("quantum {}:\n{:?}\nquantum 5000:\n{:?}\nfinal {:?} vs {:?}", q, flat(&e2), flat(&ev), f2, fin), case);
                }
                if calls > 3 {
                    nt = true;
                }
            }
        }
    }
    let nq = 2 + t.below(5);
    let quanta: Vec<usize> = (0..nq).map(|_| *t.pick(&[0usize, 1, 2, 3, 10, 100, 5000])).collect();
    if quanta.iter().any(|q| *q > 0) {
        match baseline(&texts, &g.replies, &probes, 1, &quanta) {
            None => return Outcome::fail("quantum-changes-termination", format!("with per-call quanta {:?} the program does not finish", quanta), case),
            Some((e2, f2, _)) => {
                if e2 != ev || f2 != fin {
                    return Outcome::fail("quantum-changes-behaviour", format!("per-call quanta {:?}:\n{:?}\nquantum 5000:\n{:?}", quanta, flat(&e2), flat(&ev)), case);
                }
            }
        }
    }
    let o = Outcome::pass(nt, hash_str(&case));
    if ctx.render {
        o.with_case(case)
    } else {
        o
    }
}

// ------------------------------------------------------------------ inserted STOP / END

const MARK: &str = "«E»";

/// All insertion points: (line index, path of arm choices, statement index).
fn insertion_points(stmts: &[Stmt], path: &mut Vec<(usize, bool)>, out: &mut Vec<(Vec<(usize, bool)>, usize)>) {
    for i in 0..stmts.len() {
        // inserting behind a remark would put the STOP into the remark
        if stmts[..i].iter().any(|s| matches!(s, Stmt::Rem { .. })) {
            break;
        }
        out.push((path.clone(), i));
        if let Stmt::If { then_, else_, .. } = &stmts[i] {
            if let Arm::Stmts(v) = then_ {
                path.push((i, true));
                insertion_points(v, path, out);
                path.pop();
            }
            if let Some(Arm::Stmts(v)) = else_ {
                path.push((i, false));
                insertion_points(v, path, out);
                path.pop();
            }
        }
    }
    // behind the last statement of the line (for the last line: the very end of the program),
    // unless that would land inside an IF arm or a remark
    if path.is_empty() && !stmts.is_empty() && !stmts.iter().any(|s| matches!(s, Stmt::Rem { .. } | Stmt::If { .. })) {
        out.push((vec![], stmts.len()));
    }
}

fn insert_at(stmts: &mut Vec<Stmt>, path: &[(usize, bool)], idx: usize, what: &[Stmt]) {
    if path.is_empty() {
        for (k, s) in what.iter().enumerate() {
            stmts.insert(idx + k, s.clone());
        }
        return;
    }
    let (i, then_arm) = path[0];
    if let Stmt::If { then_, else_, .. } = &mut stmts[i] {
        if then_arm {
            if let Arm::Stmts(v) = then_ {
                insert_at(v, &path[1..], idx, what)
            }
        } else if let Some(Arm::Stmts(v)) = else_ {
            insert_at(v, &path[1..], idx, what)
        }
    }
}

fn check_inserted_stop(t: &mut Tape, ctx: &Ctx) -> Outcome {
    let g = gen_plain(t);
    let probes = probes_text(&g);
    let texts = g.prog.texts();
    let case0 = case_text(&g);
    crate::runner::note_case(&case0);
    let (ev, fin, _) = match baseline(&texts, &g.replies, &probes, 5000, &[]) {
        Some(x) => x,
        None => return Outcome::discard("program does not finish within the budget"),
    };
    if errors(&ev).iter().any(|e| !e.is_empty()) {
        // CONT after an error is outside the statement; keep runs that end normally
        return Outcome::discard("run ends in an error");
    }
    let want = printed(&ev);
    // choose a few insertion points
    let mut pts: Vec<(usize, Vec<(usize, bool)>, usize)> = vec![];
    for (li, l) in g.prog.lines.iter().enumerate() {
        let mut out = vec![];
        insertion_points(&l.stmts, &mut vec![], &mut out);
        for (p, i) in out {
            pts.push((li, p, i));
        }
    }
    if pts.is_empty() {
        return Outcome::discard("no insertion point");
    }
    let tries = if ctx.thorough { 12 } else { 5 };
    let mut hit_any = false;
    let mut nontrivial = false;
    for _ in 0..tries {
        let (li, path, idx) = pts[t.below(pts.len())].clone();
        let mut use_end = t.chance(1, 2);
        if path.is_empty() {
            // an END with no code behind it (only remarks / DATA) is the end of the program: it
            // cannot be continued, and need not be
            let rest_on_line = g.prog.lines[li].stmts[idx..].iter().any(has_code);
            let later = g.prog.lines[li + 1..].iter().any(|l| l.stmts.iter().any(has_code));
            if !rest_on_line && !later {
                use_end = false;
            }
        }
        let mut p2 = g.prog.clone();
        let what: Vec<Stmt> = if use_end { vec![Stmt::Print(vec![PItem::Expr(E::Str(MARK.into())), PItem::Semi]), Stmt::End] } else { vec![Stmt::Stop] };
        insert_at(&mut p2.lines[li].stmts, &path, idx, &what);
        // a STOP behind the program's final END is never reached: let it take the END's place,
        // so that the STOP is the very last statement of the stored program
        if !use_end && path.is_empty() && li + 1 == p2.lines.len() && idx > 0 && idx + 1 == p2.lines[li].stmts.len() && matches!(p2.lines[li].stmts[idx - 1], Stmt::End) {
            p2.lines[li].stmts.remove(idx - 1);
        }
        let line_no = p2.lines[li].num;
        let texts2 = p2.texts();
        if texts2[li].len() > 1000 {
            continue;
        }
        let case = format!("{}\n(inserted {} in line {})\n{}", case0, if use_end { "PRINT \"«E»\";:END" } else { "STOP" }, line_no, texts2[li]);
        let mut term = load(&texts2);
        let mut o = Opts::default();
        o.replies = g.replies.iter().cloned().collect();
        o.max_calls = 6000;
        let mut out = String::new();
        let mut cmd = "RUN".to_string();
        let mut stops = 0;
        let mut finished = false;
        for _ in 0..400 {
            let (evs, end, forced) = run_segment(&mut term, &cmd, &mut o);
            if let Some(m) = has_panic(&evs) {
                return Outcome::fail("panic", m, case);
            }
            if end != End::Stopped {
                return Outcome::fail("inserted-stop-changes-termination", "the program with the inserted statement does not finish".into(), case);
            }
            let seg = printed(&evs);
            let errs = errors(&evs);
            if use_end {
                // the prompt forces a newline behind the marker (the cursor is mid-line)
                let seg_m = seg.strip_suffix('\n').unwrap_or(&seg);
                if seg_m.ends_with(MARK) && errs.is_empty() {
                    out.push_str(&seg_m[..seg_m.len() - MARK.len()]);
                    stops += 1;
                    cmd = "CONT".into();
                    if t.chance(1, 3) {
                        term.line(*t.pick(&["PRINT A;B%;A$", "PRINT A;B%;A$", "PRINT A+", "PRINT B%:GOTO 64999", "LIST -20", "SAVE \"X\""]), &mut o);
                        term.take();
                    }
                    continue;
                }
                out.push_str(&seg);
                if !errs.is_empty() {
                    return Outcome::fail("inserted-end-raises-error", format!("errors {:?} after {} stops", errs, stops), case);
                }
                finished = true;
                break;
            } else {
                let brk = format!("?BREAK IN {}", line_no);
                if errs == vec![brk.clone()] {
                    // the forced newline belongs to the break message
                    let seg2 = if forced && seg.ends_with('\n') { seg[..seg.len() - 1].to_string() } else { seg.clone() };
                    out.push_str(&seg2);
                    stops += 1;
                    cmd = "CONT".into();
                    if t.chance(1, 3) {
                        term.line(*t.pick(&["PRINT A;B%;A$", "PRINT A;B%;A$", "PRINT A+", "PRINT B%:GOTO 64999", "LIST -20", "SAVE \"X\""]), &mut o);
                        term.take();
                    }
                    continue;
                }
                out.push_str(&seg);
                if !errs.is_empty() {
                    return Outcome::fail("inserted-stop-raises-error", format!("errors {:?} after {} stops", errs, stops), case);
                }
                finished = true;
                break;
            }
        }
        if !finished {
            continue; // more than 400 stops: a loop body; enough was compared already
        }
        if !same_output(&out, &want) {
            return Outcome::fail(
                "output-differs-with-stop-cont",
                format!("{} stop(s) + CONT:\n{:?}\nuninterrupted:\n{:?}", stops, out, want),
                case,
            );
        }
        let mut f2 = String::new();
        for p in &probes {
            term.line(p, &mut o);
            f2.push_str(&flat(&term.take()));
        }
        if f2 != fin {
            return Outcome::fail("final-state-differs-with-stop-cont", format!("{:?}\nvs\n{:?}", f2, fin), case);
        }
        if stops > 0 {
            hit_any = true;
            if !path.is_empty() || stops > 1 {
                nontrivial = true;
            }
        }
    }
    if !hit_any {
        return Outcome::discard("inserted statement never reached");
    }
    let o = Outcome::pass(nontrivial, hash_str(&case0)).with_labels(if nontrivial { vec!["STOP/END inside an IF arm or hit more than once"] } else { vec![] });
    if ctx.render {
        o.with_case(case0)
    } else {
        o
    }
}


// ------------------------------------------------------------------ a break inside a listing

/// LIST is a program statement too: a break that arrives between two listed lines is resumed by
/// CONT like any other (the rest of the listing, then the rest of the program).
fn check_list_interrupt(t: &mut Tape, ctx: &Ctx) -> Outcome {
    let r1 = *t.pick(&["10-30", "", "40-", "-20", "20", "100-110"]);
    let r2 = *t.pick(&["100-110", "10-20", "", "65000-"]);
    let texts: Vec<String> = vec![
        "10 FOR I=1 TO 2".to_string(),
        "20 PRINT \"A\";I".to_string(),
        format!("30 LIST {}:PRINT \"L\";", r1).replace("LIST :", "LIST:"),
        "40 PRINT \"B\";I".to_string(),
        "50 NEXT".to_string(),
        "60 GOSUB 100:PRINT \"C\"".to_string(),
        "70 END".to_string(),
        format!("100 PRINT \"S\";:LIST {}:RETURN", r2).replace("LIST :", "LIST:"),
        "110 REM é".to_string(),
    ];
    let run_to = |k: Option<usize>| -> Result<(String, bool), String> {
        let mut term = Term::new();
        let mut o = Opts::default();
        o.quantum = 3;
        o.max_calls = 20_000;
        for l in &texts {
            term.line(l, &mut o);
        }
        if !term.take().is_empty() {
            return Err("program entry printed something".into());
        }
        term.enter_raw("RUN");
        let mut broke = false;
        for _ in 0..20_000 {
            if !broke && k.map(|k| term.log.len() >= k).unwrap_or(false) {
                term.interrupt();
                broke = true;
                term.run(&mut o);
                break;
            }
            if term.step(&mut o) || term.dead {
                break;
            }
        }
        if broke {
            let end = term.line("CONT", &mut o);
            if end != End::Stopped {
                return Err("CONT did not come to an end".into());
            }
        }
        let evs = term.take();
        if let Some(m) = has_panic(&evs) {
            return Err(format!("panic: {}", m));
        }
        Ok((flat(&evs), broke))
    };
    let base = match run_to(None) {
        Ok((b, _)) => b,
        Err(e) => return Outcome::fail("harness", e, texts.join("\n")),
    };
    let n_events = 60;
    let k = 1 + t.below(n_events);
    let case = format!("{}\nRUN, interrupt() when {} events have been seen, CONT", texts.join("\n"), k);
    crate::runner::note_case(&case);
    let (got, broke) = match run_to(Some(k)) {
        Ok(x) => x,
        Err(e) => return Outcome::fail("break-inside-listing", e, case),
    };
    if !broke {
        return Outcome::discard("the run ended before the chosen event");
    }
    // take out the break marker, the message and the line break it may force
    let mut rest = got.replace("«^C»", "");
    let at = match rest.find("?BREAK IN ") {
        Some(i) => i,
        None => return Outcome::fail("break-inside-listing", format!("no ?BREAK message in {:?}", got), case),
    };
    let end = rest[at..].find('\n').map(|j| at + j + 1).unwrap_or(rest.len());
    rest.replace_range(at..end, "");
    let alt = if at > 0 && rest[..at].ends_with('\n') {
        let mut a = rest.clone();
        a.remove(at - 1);
        Some(a)
    } else {
        None
    };
    if rest != base && alt.as_deref() != Some(base.as_str()) {
        return Outcome::fail("break-inside-listing", format!("uninterrupted run:\n{}\n--- interrupted and continued (message removed):\n{}", base, rest), case);
    }
    let o2 = Outcome::pass(true, hash_str(&case));
    if ctx.render {
        o2.with_case(case)
    } else {
        o2
    }
}

pub fn property() -> Property {
    Property {
        id: "C13",
        rule: "Cases: (list_interrupt) a program that lists parts of itself inside a FOR loop and a subroutine, interrupt() after the k-th event, CONT: the transcript minus the break message equals the uninterrupted one. (interrupt_points also demands the forced line break: with the cursor in mid-line the ?BREAK message starts on a fresh line; the lines typed between break and CONT include LIST n-m and SAVE.) proptest-generated programs of the fragment with column-independent output (no TAB/POS/comma zones, no TRON), INPUT allowed. (interrupt_points) the run is single-stepped with execute(1); for EVERY k below the run length (sampled when longer than 120/400) \
the program is interrupted after k instructions, the break message is checked to be exactly [newline]?BREAK IN n, optionally variables are printed in direct mode, then CONT; the same at every INPUT wait. (quanta) the same run under quanta 1,2,3,5,7,64,4999,5000 and random per-call quanta incl. 0. \
(inserted_stop) STOP or END inserted at a random statement boundary (also inside IF arms, loop bodies, subroutines), run + CONT after every stop. Oracle (differential): output before the break + output after CONT == output of the uninterrupted run; prompts equal up to one repeated prompt; final variables equal; all quanta give identical transcripts. \
Points outside the statement are skipped using the verif-hooks probe: RUN itself still executing, program already ended, an error already pending. Non-trivial: the interruption lands with operands or frames on the stack or in the INPUT wait / the inserted STOP sits in an IF arm or is hit repeatedly; distinct by program.",
        assumptions: vec![
            "the verif-hooks probe is used only to classify interruption points (inside the program or not) and to label them; the comparison itself uses public events",
            "the baseline is the same implementation under one schedule (differential oracle): a defect that shows under every schedule is invisible here and is C01's business",
        ],
        subs: vec![
            Sub::tape("interrupt_points", check_interrupt_points, 3000, 100_000, 700).wedge(120),
            Sub::tape("quanta", check_quanta, 20_000, 600_000, 900).wedge(60),
            Sub::tape("inserted_stop", check_inserted_stop, 15_000, 500_000, 700).wedge(60),
            Sub::tape("list_interrupt", check_list_interrupt, 1_500, 30_000, 8).wedge(60),
        ],
    }
}
