//! C06 — variables and arrays are typed, zero-initialised, bounds-checked, never aliased.
//! Oracle: the reference store (model.rs): a map from (name, subscripts) to a typed value; the
//! name decides the type (suffix, else the first letter's DEFtype); bound 10 when used
//! undeclared.

use crate::bast::*;
use crate::drive::{flat, has_panic, Opts, Term};
use crate::expr::*;
use crate::model::{same_transcript, Halt, Machine};
use crate::runner::{Ctx, Outcome, Property, Sub};
use crate::sem::{Bin, Ty};
use crate::tape::{hash_str, Tape};
use std::collections::BTreeSet;

/// Names chosen to collide if anything could.
const BASES: &[&str] = &["A", "AB", "A1", "B", "B2", "C", "S", "X", "A12", "BA"];
const SUFFIXES: &[&str] = &["", "!", "#", "%", "$"];

fn lit(n: i64) -> E {
    if n < 0 {
        E::Neg(Box::new(E::Lit((-n).to_string())))
    } else {
        E::Lit(n.to_string())
    }
}

fn name(t: &mut Tape) -> Name {
    Name::new(&format!("{}{}", t.pick_str(BASES), t.pick_str(SUFFIXES)))
}

fn ty_of(n: &Name, deftypes: &[Ty; 26]) -> Ty {
    n.ty(deftypes)
}

struct St {
    deftypes: [Ty; 26],
    /// arrays seen so far with their arity (declared or implied)
    arrays: Vec<(Name, Vec<i16>)>,
    touched: BTreeSet<String>,
    counter: i64,
    same_base_letters: usize,
}

fn subscript(t: &mut Tape, bound: i16) -> E {
    match t.below(11) {
        // a zero with a sign is element 0 like any zero
        10 => E::Neg(Box::new(E::Lit(t.pick(&["0!", "0#", "0", "0.0"]).to_string()))),
        0 => lit(-1),
        1 => lit(bound as i64 + 1),
        2 => E::Lit("2.5".into()),
        3 => lit(bound as i64),
        4 => lit(0),
        5 if bound > 0 => lit(t.range(0, bound.min(12) as i64)),
        6 => E::Lit(t.pick(&["0.9", "0.9", "0.99999999#"]).to_string()),
        // a fraction between -1 and 0 floors to -1: out of range, not element 0
        7 => E::Neg(Box::new(E::Lit(t.pick(&["0.5", "0.25#", "0.99"]).to_string()))),
        _ => lit(t.range(0, (bound.min(5)) as i64)),
    }
}

fn element(t: &mut Tape, st: &mut St) -> Lval {
    if !st.arrays.is_empty() && t.chance(3, 4) {
        let (n, dims) = st.arrays[t.below(st.arrays.len())].clone();
        // sometimes the wrong number of subscripts
        let nsub = if t.chance(1, 12) { 1 + t.below(3) } else { dims.len() };
        let subs: Vec<E> = (0..nsub).map(|k| subscript(t, *dims.get(k).unwrap_or(&10))).collect();
        Lval::Elem(n, subs)
    } else {
        let n = name(t);
        let nsub = 1 + t.below(2);
        let subs: Vec<E> = (0..nsub).map(|_| subscript(t, 10)).collect();
        if !st.arrays.iter().any(|(x, _)| *x == n) {
            st.arrays.push((n.clone(), vec![10; nsub]));
        }
        Lval::Elem(n, subs)
    }
}

fn target(t: &mut Tape, st: &mut St) -> Lval {
    if t.chance(2, 5) {
        element(t, st)
    } else {
        Lval::Var(name(t))
    }
}

/// A value that reveals the type it was stored in: k + 1/3 (Double arithmetic), or a unique string.
fn sentinel(t: &mut Tape, st: &mut St, ty: Ty, wrong_type: bool) -> E {
    st.counter += 1;
    let k = st.counter;
    let want_str = (ty == Ty::Str) != wrong_type;
    if wrong_type && t.chance(1, 2) {
        // the default value of the wrong kind is a wrong type all the same
        return if want_str { E::Str(String::new()) } else { lit(0) };
    }
    if want_str {
        E::Str(format!("s{}é", k))
    } else {
        match t.below(6) {
            0 => lit(k),
            // far below what a Single can tell from 0: a Double holds it, a Single takes 0
            5 => E::Lit(format!("{}D-{}", k % 9 + 1, 46 + (k * 37) % 250)),
            // a lone constant of each float type that the other types cannot hold exactly
            1 => E::Lit(format!("{}.123456789012#", k)),
            2 => E::Lit(format!("{}.1", k % 1000)),
            _ => E::Bin(Bin::Add, Box::new(lit(k)), Box::new(E::Bin(Bin::Div, Box::new(E::Lit("1#".into())), Box::new(lit(3))))),
        }
    }
}

fn remember(st: &mut St, lv: &Lval) {
    st.touched.insert(crate::expr::render(&lv.as_expr()));
}

fn op(t: &mut Tape, st: &mut St) -> Vec<Stmt> {
    match t.weighted(&[8, 6, 2, 1, 2, 2, 1, 1, 1]) {
        8 => {
            // SWAP of a variable with the element it subscripts: the two variables are the ones
            // the statement names when it starts
            let sfx = *t.pick(&[None, Some('!'), Some('#'), Some('%')]);
            let i = Name { base: t.pick_str(BASES).to_string(), suffix: sfx };
            let arr = Name { base: t.pick_str(BASES).to_string(), suffix: sfx };
            if ty_of(&i, &st.deftypes) == Ty::Str || ty_of(&arr, &st.deftypes) != ty_of(&i, &st.deftypes) {
                let lv = Lval::Var(i);
                remember(st, &lv);
                return vec![Stmt::Print(vec![PItem::Expr(lv.as_expr())])];
            }
            let k = t.below(4) as i64;
            st.counter += 1;
            let val = 4 + (st.counter % 6) as i64;
            let el = Lval::Elem(arr.clone(), vec![E::Var(i.clone())]);
            for j in [k, val] {
                remember(st, &Lval::Elem(arr.clone(), vec![lit(j)]));
            }
            remember(st, &Lval::Var(i.clone()));
            let (a, b) = if t.chance(1, 2) { (Lval::Var(i.clone()), el.clone()) } else { (el.clone(), Lval::Var(i.clone())) };
            vec![Stmt::Let { lv: Lval::Var(i.clone()), e: lit(k), kw: false }, Stmt::Let { lv: el, e: lit(val), kw: false }, Stmt::Swap(a, b)]
        }
        7 => {
            // a FOR loop leaves its counter behind as an ordinary variable of its own type, whatever
            // the types of the bounds and the step were
            let n = name(t);
            let ty = ty_of(&n, &st.deftypes);
            st.counter += 1;
            let k = (st.counter % 100) as i64;
            if ty == Ty::Str {
                let lv = Lval::Var(n);
                remember(st, &lv);
                return vec![Stmt::Print(vec![PItem::Expr(lv.as_expr())])];
            }
            let step = match ty {
                Ty::Str => "1",
                Ty::Int => *t.pick(&["1", "1!", "1#", "2#", "2%"]),
                Ty::Sng => *t.pick(&["1", ".5#", ".25#", "1#", ".5", "2%"]),
                Ty::Dbl => *t.pick(&["1", ".5#", ".5", ".25!", "2%"]),
            };
            let to = match ty {
                Ty::Dbl | Ty::Sng => E::Lit(format!("{}#", k + 2)),
                _ => lit(k + 2),
            };
            let lv = Lval::Var(n.clone());
            remember(st, &lv);
            let third = E::Bin(Bin::Div, Box::new(E::Var(n.clone())), Box::new(lit(3)));
            vec![
                Stmt::For { v: n, from: lit(k), to, step: Some(E::Lit(step.to_string())) },
                Stmt::Next(vec![]),
                Stmt::Print(vec![PItem::Expr(E::Str("<".into())), PItem::Semi, PItem::Expr(third), PItem::Semi, PItem::Expr(E::Str(">".into()))]),
            ]
        }
        0 => {
            let lv = target(t, st);
            let ty = ty_of(lv.name(), &st.deftypes);
            let wrong = t.chance(1, 15);
            let e = sentinel(t, st, ty, wrong);
            remember(st, &lv);
            vec![Stmt::Let { lv, e, kw: false }]
        }
        1 => {
            let lv = target(t, st);
            remember(st, &lv);
            vec![Stmt::Print(vec![PItem::Expr(E::Str("<".into())), PItem::Semi, PItem::Expr(lv.as_expr()), PItem::Semi, PItem::Expr(E::Str(">".into()))])]
        }
        2 => {
            let n = name(t);
            let nd = 1 + t.below(3);
            let dims: Vec<i16> = (0..nd).map(|_| *t.pick(&[0i16, 1, 3, 10, 32767, 5])).collect();
            if !st.arrays.iter().any(|(x, _)| *x == n) {
                st.arrays.push((n.clone(), dims.clone()));
            }
            vec![Stmt::Dim(vec![(n, dims.iter().map(|d| lit(*d as i64)).collect())])]
        }
        3 => {
            // one to three names; one of them may not be dimensioned (the statement then stops
            // there: the names before it are erased, the ones behind it are not)
            let k = *t.pick(&[1usize, 1, 2, 3]);
            let mut names: Vec<Name> = vec![];
            for _ in 0..k {
                let n = if !st.arrays.is_empty() && t.chance(3, 4) { st.arrays[t.below(st.arrays.len())].0.clone() } else { name(t) };
                if !names.contains(&n) {
                    names.push(n);
                }
            }
            // (the generator's own list of arrays is only a hint for picking names)
            if names.len() == 1 {
                st.arrays.retain(|(x, _)| *x != names[0]);
            }
            vec![Stmt::Erase(names)]
        }
        4 => {
            let a = target(t, st);
            let b = if t.chance(1, 2) {
                // same type by construction: same suffix
                let sfx = a.name().suffix;
                let base = t.pick_str(BASES);
                Lval::Var(Name { base: base.to_string(), suffix: sfx })
            } else {
                target(t, st)
            };
            remember(st, &a);
            remember(st, &b);
            vec![Stmt::Swap(a, b)]
        }
        5 => {
            let (ty, a, b) = *t.pick(&[
                (Ty::Int, 'A', 'A'),
                (Ty::Dbl, 'A', 'B'),
                (Ty::Str, 'S', 'S'),
                (Ty::Sng, 'A', 'Z'),
                (Ty::Int, 'B', 'C'),
                (Ty::Str, 'A', 'A'),
                (Ty::Dbl, 'X', 'X'),
                (Ty::Int, 'S', 'X'),
            ]);
            for c in (a as u8)..=(b as u8) {
                st.deftypes[(c - b'A') as usize] = ty;
            }
            vec![Stmt::DefType(ty, a, b)]
        }
        _ => {
            st.arrays.clear();
            st.deftypes = [Ty::Sng; 26];
            vec![Stmt::Clear]
        }
    }
}

fn check_store(t: &mut Tape, ctx: &Ctx) -> Outcome {
    let mut st = St { deftypes: [Ty::Sng; 26], arrays: vec![], touched: BTreeSet::new(), counter: 0, same_base_letters: 0 };
    let empty = Program::default();
    let mut m = Machine::new(&empty);
    let mut term = Term::new();
    let mut o = Opts::default();
    o.max_calls = 400;
    let nops = 3 + t.below(30);
    let mut script = String::new();
    let mut labels: Vec<&'static str> = vec![];
    let mut deftype_between = false;
    let mut boundary = false;
    for _ in 0..nops {
        let stmts = op(t, &mut st);
        let text = render_stmts(&stmts);
        if text.len() > 900 {
            continue;
        }
        script.push_str(&text);
        script.push('\n');
        crate::runner::note_case(&script);
        let h = m.direct_line(&stmts);
        let want = std::mem::take(&mut m.out);
        if h == Halt::Budget || m.undefined.is_some() {
            return Outcome::fail("harness", format!("model cannot run {:?}: {:?}", text, m.undefined), script);
        }
        if m.flags.fuzzy_eq {
            return Outcome::discard("a loop whose end test the manual leaves open");
        }
        term.line(&text, &mut o);
        let got = term.take();
        if let Some(p) = has_panic(&got) {
            return Outcome::fail("panic", p, script);
        }
        if !same_transcript(&want, &got) {
            return Outcome::fail("store-semantics", format!("{}\n--- reference store:\n{}\n--- implementation:\n{}", text, flat(&want), flat(&got)), script);
        }
        let w = flat(&want);
        if w.contains("SUBSCRIPT") {
            boundary = true;
            labels.push("subscript out of range");
        }
        if w.contains("REDIMENSIONED") {
            labels.push("REDIMENSIONED ARRAY");
        }
        if w.contains("TYPE MISMATCH") {
            labels.push("TYPE MISMATCH");
        }
        if matches!(stmts[0], Stmt::DefType(..)) {
            deftype_between = !st.touched.is_empty();
            labels.push("DEFtype after stores");
            // variables of letters outside the range: the manual leaves their fate open; observe once
            let unc = m.uncertain.clone();
            for (n, idx) in unc {
                let e = match &idx {
                    None => E::Var(Name::new(&n)),
                    Some(i) => E::Elem(Name::new(&n), i.iter().map(|x| lit(*x as i64)).collect()),
                };
                let probe = render_stmts(&[Stmt::Print(vec![PItem::Expr(e)])]);
                term.line(&probe, &mut o);
                let seen = flat(&term.take());
                let (kept, dropped) = m.uncertain_texts(&n, &idx);
                if seen == format!("{}\n", dropped) && kept != dropped {
                    m.resolve_uncertain(&n, &idx, true);
                } else if seen == format!("{}\n", kept) {
                    m.resolve_uncertain(&n, &idx, false);
                } else {
                    return Outcome::fail(
                        "store-semantics",
                        format!("after {}: {} shows {:?}; it may keep its value ({:?}) or be dropped ({:?}), nothing else", text, probe, seen, kept, dropped),
                        script,
                    );
                }
            }
        }
    }
    // the aliasing sweep: every name / element ever touched reads what the reference store holds
    let touched: Vec<String> = st.touched.iter().cloned().collect();
    for chunk in touched.chunks(4) {
        // re-parse is not needed: the touched texts are canonical expressions of variables
        let line = format!("PRINT \"<\";{}", chunk.iter().map(|x| format!("{};\"|\"", x)).collect::<Vec<_>>().join(";"));
        if line.len() > 900 {
            continue;
        }
        // run the same text through the model by rebuilding the statements from the names
        let stmts: Vec<Stmt> = vec![Stmt::Print({
            let mut items = vec![PItem::Expr(E::Str("<".into()))];
            for x in chunk {
                items.push(PItem::Semi);
                items.push(PItem::Expr(parse_touched(x)));
                items.push(PItem::Semi);
                items.push(PItem::Expr(E::Str("|".into())));
            }
            items
        })];
        let text = render_stmts(&stmts);
        let _ = line;
        m.direct_line(&stmts);
        let want = std::mem::take(&mut m.out);
        term.line(&text, &mut o);
        let got = term.take();
        if let Some(p) = has_panic(&got) {
            return Outcome::fail("panic", p, script);
        }
        if !same_transcript(&want, &got) {
            return Outcome::fail("aliasing-sweep", format!("{}\n--- reference store:\n{}\n--- implementation:\n{}", text, flat(&want), flat(&got)), format!("{}{}\n", script, text));
        }
    }
    // non-trivial: >= 3 distinct names sharing a base letter were written/read, a boundary
    // subscript was used, or a DEFtype came between write and read
    let mut by_letter = std::collections::HashMap::new();
    for x in &st.touched {
        *by_letter.entry(x.chars().next().unwrap_or('A')).or_insert(0usize) += 1;
    }
    st.same_base_letters = by_letter.values().cloned().max().unwrap_or(0);
    let nt = st.same_base_letters >= 3 || boundary || deftype_between;
    labels.sort();
    labels.dedup();
    let o2 = Outcome::pass(nt, hash_str(&script)).with_labels(labels);
    if ctx.render {
        o2.with_case(script)
    } else {
        o2
    }
}

/// The touched set holds canonical texts like `A1%` or `AB$(2.5,0)`; rebuild the expression.
fn parse_touched(x: &str) -> E {
    match x.find('(') {
        None => E::Var(Name::new(x)),
        Some(i) => {
            let n = Name::new(&x[..i]);
            let inner = &x[i + 1..x.len() - 1];
            let subs: Vec<E> = inner
                .split(',')
                .map(|s| {
                    if let Some(r) = s.strip_prefix('-') {
                        E::Neg(Box::new(E::Lit(r.to_string())))
                    } else {
                        E::Lit(s.to_string())
                    }
                })
                .collect();
            E::Elem(n, subs)
        }
    }
}

// ------------------------------------------------------------------ literal cases

const CASES: &[&str] = &[
    "A1=1.5:DEFINT A:PRINT A1\n=>  0 \\n",
    "A=1:A!=2:A#=3:A%=4:A$=\"5\":A(1)=6:A!(1)=7:PRINT A;A!;A#;A%;A$;A(1);A!(1)\n=>  1  2  3  4 5 6  7 \\n",
    "PRINT Z;Z%;Z#;\"<\";Z$;\">\";Z(10);Z$(0)\n=>  0  0  0 <> 0 \\n",
    "PRINT Q(11)\n=> ?SUBSCRIPT OUT OF RANGE\\n",
    "DIM Q(5):PRINT Q(5):PRINT Q(6)\n=>  0 \\n?SUBSCRIPT OUT OF RANGE\\n",
    "DIM Q(5):DIM Q(5)\n=> ?REDIMENSIONED ARRAY\\n",
    "Q(3)=1:DIM Q(20)\n=> ?REDIMENSIONED ARRAY\\n",
    "DIM Q(5):Q(5)=7:ERASE Q:DIM Q(2,2):PRINT Q(2,2)\n=>  0 \\n",
    "A=1:B%=2:SWAP A,B%\nPRINT A;B%\n=> ?TYPE MISMATCH\\n 1  2 \\n",
    "A=1:B=2:SWAP A,B:PRINT A;B\n=>  2  1 \\n",
    "DIM Q(0):Q(0)=5:PRINT Q(0):PRINT Q(1)\n=>  5 \\n?SUBSCRIPT OUT OF RANGE\\n",
    "DIM Q(2,3):PRINT Q(1)\n=> ?SUBSCRIPT OUT OF RANGE\\n",
    "Q(2.9)=5:PRINT Q(2)\n=>  5 \\n",
    "I=2:A(2)=5:SWAP I,A(I):PRINT I;A(2);A(5)\n=>  5  2  0 \\n",
    "I=2:A(2)=5:SWAP A(I),I:PRINT I;A(2);A(5)\n=>  5  2  0 \\n",
];

fn gen_cases(part: usize, parts: usize, _th: bool, emit: &mut dyn FnMut(&str)) {
    for (i, s) in CASES.iter().enumerate() {
        if i % parts == part {
            emit(s);
        }
    }
}

fn check_case(item: &str, _ctx: &Ctx) -> Outcome {
    let (prog, want) = match item.rsplit_once("\n=> ") {
        Some((p, w)) => (p, w.replace("\\n", "\n")),
        None => return Outcome::discard("no expectation"),
    };
    let mut term = Term::new();
    let mut o = Opts::default();
    for l in prog.split('\n') {
        term.line(l, &mut o);
    }
    let evs = term.take();
    if let Some(m) = has_panic(&evs) {
        return Outcome::fail("panic", m, item.to_string());
    }
    let got = flat(&evs);
    if got != want {
        return Outcome::fail("store-case", format!("got {:?}\nwant {:?}", got, want), item.to_string());
    }
    Outcome::pass(true, hash_str(item)).with_case(item.to_string())
}

// ------------------------------------------------------------------ SWAP as a program statement, and what CONT does after a refusal

/// A refused SWAP leaves both variables unchanged - also when the program is continued.
fn check_swap_program(t: &mut Tape, ctx: &Ctx) -> Outcome {
    let pool: &[(&str, &str, &str)] = &[
        ("A%", "3", " 3 "),
        ("B", "4.5", " 4.5 "),
        ("C#", "0.1#", " 0.1 "),
        ("D$", "\"dee\"", "dee"),
        ("E!", "-2", "-2 "),
        ("Q(1)", "7", " 7 "),
        ("R$(2)", "\"é\"", "é"),
        ("S%(0)", "-9", "-9 "),
        ("F", "0", " 0 "),
        ("G$", "\"\"", ""),
        ("H#", "12345.678901#", " 12345.678901 "),
        ("I%", "0", " 0 "),
    ];
    let (n1, v1, p1) = *t.pick(pool);
    let (n2, v2, p2) = *t.pick(pool);
    if n1 == n2 {
        return Outcome::discard("same variable twice");
    }
    let cls = |n: &str| -> char {
        if n.contains('$') {
            '$'
        } else if n.contains('%') {
            '%'
        } else if n.contains('#') {
            '#'
        } else {
            '!'
        }
    };
    let same = cls(n1) == cls(n2);
    let prog = vec![format!("10 {}={}:{}={}", n1, v1, n2, v2), format!("20 SWAP {},{}", n1, n2), format!("30 PRINT \"<\";{};\"|\";{};\">\"", n1, n2), "40 END".to_string()];
    let show = format!("PRINT \"<\";{};\"|\";{};\">\"", n1, n2);
    let unchanged = format!("<{}|{}>\n", p1, p2);
    let swapped = format!("<{}|{}>\n", p2, p1);
    let mut term = Term::new();
    let mut o = Opts::default();
    for l in &prog {
        term.line(l, &mut o);
    }
    term.take();
    let case = format!("{}\nRUN{}", prog.join("\n"), if same { "" } else { "\nCONT" });
    term.line("RUN", &mut o);
    let out = flat(&term.take());
    if let Some(m) = has_panic(&term.log) {
        return Outcome::fail("panic", m, case);
    }
    if same {
        if out != swapped {
            return Outcome::fail("swap-in-a-program", format!("RUN printed {:?}, expected {:?}", out, swapped), case);
        }
        return Outcome::pass(true, hash_str(&case)).with_labels(vec!["same-typed SWAP in a program"]).with_case(case);
    }
    if !out.starts_with("?TYPE MISMATCH IN 20") {
        return Outcome::fail("swap-in-a-program", format!("a mixed-type SWAP printed {:?}, expected ?TYPE MISMATCH IN 20", out), case);
    }
    term.line(&show, &mut o);
    let now = flat(&term.take());
    if now != unchanged {
        return Outcome::fail("swap-refused-but-variables-changed", format!("after the refusal: {:?}, expected {:?}", now, unchanged), case);
    }
    // the documented CONT after an error condition: whatever it resumes, the refused SWAP must
    // still have left both variables alone
    term.line("CONT", &mut o);
    let cont_out = flat(&term.take());
    if let Some(m) = has_panic(&term.log) {
        return Outcome::fail("panic", m, case);
    }
    term.line(&show, &mut o);
    let later = flat(&term.take());
    if later != unchanged {
        return Outcome::fail("swap-refused-but-variables-changed", format!("after the refusal and CONT (which printed {:?}): {:?}, expected {:?}", cont_out, later, unchanged), case);
    }
    let o2 = Outcome::pass(true, hash_str(&case)).with_labels(vec!["mixed-type SWAP in a program, then CONT"]);
    if ctx.render {
        o2.with_case(case)
    } else {
        o2
    }
}

pub fn property() -> Property {
    Property {
        id: "C06",
        rule: "Cases: (operations include FOR..NEXT with a step of a wider type than the counter, SWAP of a variable with the element it subscripts, subscripts that are a zero with a sign, sentinels far below Single range) proptest-generated sequences of 3-32 direct statements over a universe of 50 names chosen to collide if anything could (A AB A1 A12 B B2 BA C S X, each bare and with ! # % $, as scalars and as arrays of 1-3 dimensions): assignments of type-revealing sentinels (k+1#/3 or a unique string; 1 in 15 of the wrong kind), reads, DIM with bounds {0,1,3,5,10,32767}, implicit dimensioning, ERASE and re-DIM, \
SWAP of same-typed and mixed operands, DEFINT/SNG/DBL/STR over several ranges between writes and reads, CLEAR, subscripts at -1, 0, the bound, bound+1, fractional, and the wrong number of subscripts. \
Oracle: the reference store after every statement (Integer variables show the floor, Single/Double their own precision, String exact; unassigned = 0 / empty; out of range SUBSCRIPT OUT OF RANGE; second DIM REDIMENSIONED ARRAY; mixed SWAP TYPE MISMATCH with both operands unchanged) and a final sweep that reads every name and element ever touched (aliasing). \
After a DEFtype, undecorated variables of the named letters whose value has another type read as the new type's default; undecorated variables of other letters may be kept or dropped (observed once, then fixed). \
Non-trivial: >= 3 distinct names sharing a first letter were written or read, a boundary subscript was used, or a DEFtype came between write and read. Distinct by script.",
        assumptions: vec!["the manual's 'existing variables not matching the new type are dropped' is read as applying at least to the named letters; for other letters either outcome is accepted"],
        subs: vec![Sub::items("store_cases", gen_cases, check_case, false), Sub::tape("store_sequences", check_store, 300_000, 5_000_000, 600), Sub::tape("swap_in_program", check_swap_program, 2_000, 20_000, 8)],
    }
}
