//! C03 — nothing crashes or wedges the interpreter; it always returns to READY.
//! Oracle = validity predicate: no call panics, every call returns (watchdog in the runner),
//! after one interrupt the runtime reaches Stopped within a small bound of execute calls and
//! then runs `PRINT 1`.

use crate::drive::{flat, guarded, has_panic, load_listing, Ev, Opts, Term};
use crate::runner::{Ctx, Outcome, Property, Sub};
use crate::tape::{hash_str, Tape};
use crate::textgen::*;
use basic::mach::Listing;

/// After interrupt(): pending error, forced newline, error list, ready prompt, Stopped.
const RECOVERY_BOUND: usize = 16;

pub fn reply_text(t: &mut Tape) -> String {
    match t.below(12) {
        0 => String::new(),
        1 => "1".into(),
        2 => "1,2".into(),
        3 => "\"a,b\",3".into(),
        4 => "HELLO".into(),
        5 => "1E5, &H1F ,\" x \"".into(),
        6 => "x".repeat(1025),
        7 => "é".repeat(300),
        8 => arbitrary_text(t, 30),
        9 => "99999".into(),
        10 => ",,,".into(),
        _ => soup(t, 4),
    }
}

fn panic_sig(msg: &str) -> String {
    // keep file:line of the panic location, drop the payload details
    let mut loc = String::new();
    if let Some(i) = msg.find("src/") {
        let rest = &msg[i..];
        let end = rest.find(|c: char| c == ' ' || c == '\n' || c == ',').unwrap_or(rest.len());
        loc = rest[..end].to_string();
        // drop the column
        let parts: Vec<&str> = loc.split(':').collect();
        if parts.len() >= 2 {
            loc = format!("{}:{}", parts[0], parts[1]);
        }
    }
    format!("panic@{}", loc)
}

/// The recovery clause. Returns Err((clause, detail)).
fn recover(term: &mut Term, had_interrupt_budget: bool) -> Result<(), (String, String)> {
    let _ = had_interrupt_budget;
    term.take();
    term.interrupt();
    let mut o = Opts::default();
    o.quantum = 50;
    let mut n = 0;
    loop {
        if term.dead {
            break;
        }
        if term.step(&mut o) {
            break;
        }
        n += 1;
        if n > RECOVERY_BOUND {
            return Err((
                "not-stopped-after-interrupt".into(),
                format!("after interrupt() the runtime was not Stopped within {} execute calls; events: {:?}", RECOVERY_BOUND, flat(&term.take())),
            ));
        }
    }
    if let Some(m) = has_panic(&term.log) {
        return Err(("panic".into(), m));
    }
    term.take();
    // the next line is accepted: PRINT 1 prints 1 (one BASIC error is tolerated when a pool is
    // exactly full; the line after that must work)
    let mut o = Opts::default();
    term.line("PRINT 1", &mut o);
    let first = term.take();
    if let Some(m) = has_panic(&first) {
        return Err(("panic".into(), m));
    }
    let f1 = flat(&first);
    if f1 == " 1 \n" {
        return Ok(());
    }
    let only_errors = first.iter().all(|e| matches!(e, Ev::Errs(_) | Ev::Out(_)));
    let mut o = Opts::default();
    term.line("PRINT 1", &mut o);
    let second = term.take();
    if let Some(m) = has_panic(&second) {
        return Err(("panic".into(), m));
    }
    let f2 = flat(&second);
    if f2 == " 1 \n" && only_errors && f1.contains("?OUT OF MEMORY") {
        return Ok(());
    }
    Err(("next-line-not-accepted".into(), format!("after interrupt and Stopped, PRINT 1 gave {:?} then {:?}", f1, f2)))
}

struct Sched {
    quanta: Vec<usize>,
    max_calls: usize,
    interrupt_at: Option<usize>,
    replies: Vec<String>,
    keys: Vec<String>,
}

fn sched(t: &mut Tape) -> Sched {
    let nq = 1 + t.below(3);
    let mut quanta = vec![];
    for _ in 0..nq {
        quanta.push(*t.pick(&[5000usize, 64, 7, 3, 2, 1, 0, 4999, 500]));
    }
    let max_calls = *t.pick(&[60usize, 20, 200, 400]);
    let interrupt_at = if t.chance(1, 3) { Some(t.below(30)) } else { None };
    let nr = t.below(4);
    let mut replies = vec![];
    for _ in 0..nr {
        replies.push(reply_text(t));
    }
    let nk = t.below(3);
    let mut keys = vec![];
    for _ in 0..nk {
        keys.push(t.pick(&["", "A", "\r", "\u{0}H", "é", "xx"]).to_string());
    }
    Sched { quanta, max_calls, interrupt_at, replies, keys }
}

fn describe(s: &Sched) -> String {
    format!(
        "quanta={:?} max_calls={} interrupt_at={:?} replies={:?} keys={:?}",
        s.quanta,
        s.max_calls,
        s.interrupt_at,
        s.replies.iter().map(|r| if r.len() > 40 { format!("{}…({} bytes)", &r.chars().take(20).collect::<String>(), r.len()) } else { r.clone() }).collect::<Vec<_>>(),
        s.keys
    )
}

/// enter(line) and drive it under the schedule. Returns (interrupted_while_running, used_input).
fn drive_line(term: &mut Term, line: &str, s: &Sched) -> (bool, bool) {
    let mut o = Opts::default();
    o.quanta = s.quanta.clone();
    o.replies = s.replies.iter().cloned().collect();
    o.keys = s.keys.iter().cloned().collect();
    term.enter_raw(line);
    let mut n = 0;
    let mut interrupted = false;
    let mut used_input = false;
    loop {
        if term.dead {
            break;
        }
        if Some(n) == s.interrupt_at {
            term.interrupt();
            interrupted = true;
        }
        let before = term.log.len();
        let stopped = term.step(&mut o);
        if term.log[before.min(term.log.len())..].iter().any(|e| matches!(e, Ev::Reply(_))) {
            used_input = true;
        }
        if stopped {
            break;
        }
        n += 1;
        if n >= s.max_calls {
            break;
        }
    }
    (interrupted, used_input)
}

// ------------------------------------------------------------------ single lines

fn check_line(t: &mut Tape, ctx: &Ctx) -> Outcome {
    let line = any_line(t);
    let s = sched(t);
    let case = format!("line: {:?}\n{}", line, describe(&s));
    crate::runner::note_case(&case);
    // lexing and parsing on their own
    let toks = match guarded(|| basic::lang::lex(&line)) {
        Ok((_, toks)) => toks,
        Err(m) => return Outcome::fail_sig("panic", panic_sig(&m), format!("lex panicked: {}", m), case),
    };
    let ntok = toks.iter().filter(|t| !matches!(t, basic::lang::token::Token::Whitespace(_))).count();
    if let Err(m) = guarded(|| basic::lang::Line::new(&line).ast().map(|_| ())) {
        return Outcome::fail_sig("panic", panic_sig(&m), format!("parse panicked: {}", m), case);
    }
    if let Err(m) = guarded(|| {
        let mut l = Listing::default();
        let _ = l.load_str(&line);
        l.lines().count()
    }) {
        return Outcome::fail_sig("panic", panic_sig(&m), format!("load_str panicked: {}", m), case);
    }
    let mut term = Term::new();
    let (_intr, _inp) = drive_line(&mut term, &line, &s);
    if let Some(m) = has_panic(&term.log) {
        return Outcome::fail_sig("panic", panic_sig(&m), m, case);
    }
    let internal = flat(&term.log).contains("INTERNAL ERROR");
    if let Err((clause, detail)) = recover(&mut term, false) {
        let sig = if clause == "panic" { panic_sig(&detail) } else { clause.clone() };
        return Outcome::fail_sig(&clause, sig, detail, case);
    }
    let mut labels = vec![];
    if internal {
        labels.push("printed INTERNAL ERROR (a BASIC error, counted)");
    }
    if line.len() > 1024 {
        labels.push("line longer than 1024 bytes");
    }
    let o = Outcome::pass(ntok >= 2, hash_str(&line)).with_labels(labels);
    if ctx.render {
        o.with_case(case)
    } else {
        o
    }
}

// ------------------------------------------------------------------ sessions

fn check_session(t: &mut Tape, ctx: &Ctx) -> Outcome {
    let mut term = Term::new();
    let mut script = String::new();
    let mut snaps: Vec<Listing> = vec![];
    let nops = 1 + t.below(14);
    let mut used_interrupt = false;
    let mut used_snapshot_across_edit = false;
    let mut used_input = false;
    let mut produced_output = false;
    for _ in 0..nops {
        if term.dead {
            break;
        }
        match t.weighted(&[6, 4, 2, 1, 2, 1, 2]) {
            0 => {
                let line = any_line(t);
                let s = sched(t);
                script.push_str(&format!("enter {:?}  [{}]\n", line, describe(&s)));
                if !snaps.is_empty() && line.trim_start().starts_with(|c: char| c.is_ascii_digit()) {
                    used_snapshot_across_edit = true;
                }
                let (i, u) = drive_line(&mut term, &line, &s);
                used_interrupt |= i;
                used_input |= u;
            }
            1 => {
                let prog = snippet_program(t, 6);
                let s = sched(t);
                if !snaps.is_empty() {
                    used_snapshot_across_edit = true;
                }
                for l in &prog {
                    script.push_str(&format!("enter {:?}\n", l));
                    term.enter_raw(l);
                    // editing lines never start execution, but the protocol still polls
                    let mut o = Opts::default();
                    term.run(&mut o);
                }
                let cmd = t.pick(&["RUN", "RUN 20", "LIST", "GOTO 10", "GOSUB 100", "CONT", "RENUM", "RENUM 5,20,3", "DELETE 20-100", "TRON:RUN"]).to_string();
                script.push_str(&format!("enter {:?}  [{}]\n", cmd, describe(&s)));
                let (i, u) = drive_line(&mut term, &cmd, &s);
                used_interrupt |= i;
                used_input |= u;
            }
            2 => {
                script.push_str("snapshot = get_listing()  (held)\n");
                match guarded(|| term.rt.get_listing()) {
                    Ok(l) => snaps.push(l),
                    Err(m) => {
                        return Outcome::fail_sig("panic", panic_sig(&m), m, script);
                    }
                }
            }
            3 => {
                script.push_str("drop oldest snapshot\n");
                if !snaps.is_empty() {
                    snaps.remove(0);
                }
            }
            4 => {
                // load a generated file
                let mut text = String::new();
                let n = t.below(6);
                for i in 0..n {
                    if t.chance(5, 6) {
                        text.push_str(&format!("{} {}\n", (i + 1) * 10, snippet_line(t)));
                    } else {
                        text.push_str(&any_line(t));
                        text.push('\n');
                    }
                }
                let run = t.chance(1, 2);
                script.push_str(&format!("set_listing(load_str of {:?}, run={})\n", text, run));
                match guarded(|| load_listing(&text)) {
                    Err(m) => return Outcome::fail_sig("panic", panic_sig(&m), m, script),
                    Ok(Err(_)) => {}
                    Ok(Ok(l)) => {
                        if !snaps.is_empty() {
                            used_snapshot_across_edit = true;
                        }
                        if let Err(m) = guarded(|| term.rt.set_listing(l, run)) {
                            return Outcome::fail_sig("panic", panic_sig(&m), m, script);
                        }
                        let s = sched(t);
                        let mut o = Opts::default();
                        o.quanta = s.quanta.clone();
                        o.max_calls = s.max_calls;
                        o.replies = s.replies.iter().cloned().collect();
                        term.run(&mut o);
                    }
                }
            }
            5 => {
                script.push_str("interrupt() while stopped, then poll\n");
                term.interrupt();
                let mut o = Opts::default();
                term.run(&mut o);
            }
            _ => {
                // snapshot is used the way the UI uses it: read lines through it
                script.push_str("read lines through the snapshots\n");
                for s in &snaps {
                    if let Err(m) = guarded(|| {
                        let _ = s.lines().map(|l| l.to_string()).count();
                        let _ = s.line(10);
                    }) {
                        return Outcome::fail_sig("panic", panic_sig(&m), m, script);
                    }
                }
            }
        }
        if term.log.iter().any(|e| matches!(e, Ev::Out(_))) {
            produced_output = true;
        }
        if let Some(m) = has_panic(&term.log) {
            return Outcome::fail_sig("panic", panic_sig(&m), m, script);
        }
        // keep the log small
        term.take();
    }
    script.push_str("interrupt(); poll to Stopped; PRINT 1\n");
    if let Err((clause, detail)) = recover(&mut term, true) {
        let sig = if clause == "panic" { panic_sig(&detail) } else { clause.clone() };
        return Outcome::fail_sig(&clause, sig, detail, script);
    }
    let mut labels = vec![];
    if used_interrupt {
        labels.push("interrupt at a chosen execute call");
    }
    if used_snapshot_across_edit {
        labels.push("snapshot alive during an edit/load");
    }
    if used_input {
        labels.push("INPUT reply consumed");
    }
    let nontrivial = produced_output && (used_interrupt || used_snapshot_across_edit || used_input);
    let o = Outcome::pass(nontrivial, hash_str(&script)).with_labels(labels);
    if ctx.render {
        o.with_case(script)
    } else {
        o
    }
}

// ------------------------------------------------------------------ literal scripts (regressions, corpus)

/// Built-in corpus of inputs that once crashed or wedged the interpreter, or come from its tests.
const SCRIPTS: &[&str] = &[
    "PRINT 1EE",
    "PRINT 1E.",
    "PRINT 1D#",
    "10 A=1E!",
    "?..ED",
    "PRINT 1E",
    "PRINT 1E+",
    "@snapshot\n10 PRINT 1\nRUN",
    "10 PRINT 1\n@snapshot\n10\nRUN",
    "10 PRINT 1\n20 PRINT 2\n@snapshot\nDELETE 10\nRENUM\nNEW\n@drop\nLIST",
    "10 INPUT A$,B\n@reply \"é,é\",1\nRUN",
    "10 INPUT A$,B\n@reply é,é,é\n@reply ,\nRUN",
    "A$=\"日本語\":MID$(A$,2,1)=\"é\":PRINT A$;INSTR(2,A$,\"語\");MID$(A$,3);RIGHT$(A$,1);LEFT$(A$,1)",
    "10 GOSUB 10\nRUN",
    "10 DEF FNA(X)=FNA(X)+1\n20 PRINT FNA(1)\nRUN",
    "10 FOR I=1 TO 10\n20 GOTO 10\nRUN",
    "10 A$=INKEY$:GOTO 10\n@interrupt 3\nRUN",
    "10 PRINT \"é\":GOTO 10\nRENUM 100\nLIST",
    "RENUM 10,0,0\nLIST",
    "PRINT -(-32767-1);ABS(-32767-1)",
    "10 FOR I=1 TO 140:PRINT STRING$(250,65);:NEXT\n20 PRINT TAB(5);1;TAB(255);POS(0),2;SPC(9);\nRUN\nPRINT TAB(3);POS(0)",
    "PRINT VAL(\"21.5°C\");VAL(\"€\");VAL(\" 1é\");VAL(\"é1\")",
    "A%=-32767-1:PRINT A% MOD -1\nPRINT A%\\-1\nPRINT -32768! MOD -1#\nPRINT -32768.5 MOD -.5\nPRINT 1",
];

fn gen_scripts(part: usize, parts: usize, _th: bool, emit: &mut dyn FnMut(&str)) {
    for (i, s) in SCRIPTS.iter().enumerate() {
        if i % parts == part {
            emit(&s.replace("\\n", "\n"));
        }
    }
}

/// Script: one entry per line. `@snapshot`, `@drop`, `@interrupt <call>` (applies to the next
/// entered line), `@reply <text>` (queued for INPUT); anything else is entered and driven.
fn check_script(item: &str, _ctx: &Ctx) -> Outcome {
    crate::runner::note_case(item);
    let mut term = Term::new();
    let mut snaps: Vec<Listing> = vec![];
    let mut replies: Vec<String> = vec![];
    let mut interrupt_at: Option<usize> = None;
    for l in item.split('\n') {
        if term.dead {
            break;
        }
        if l == "@snapshot" {
            match guarded(|| term.rt.get_listing()) {
                Ok(x) => snaps.push(x),
                Err(m) => return Outcome::fail_sig("panic", panic_sig(&m), m, item.to_string()),
            }
        } else if l == "@drop" {
            snaps.clear();
        } else if let Some(r) = l.strip_prefix("@interrupt ") {
            interrupt_at = r.trim().parse().ok();
        } else if let Some(r) = l.strip_prefix("@reply ") {
            replies.push(r.to_string());
        } else {
            let s = Sched { quanta: vec![5000], max_calls: 200, interrupt_at: interrupt_at.take(), replies: std::mem::take(&mut replies), keys: vec![] };
            drive_line(&mut term, l, &s);
        }
        if let Some(m) = has_panic(&term.log) {
            return Outcome::fail_sig("panic", panic_sig(&m), m, item.to_string());
        }
    }
    if let Err((clause, detail)) = recover(&mut term, true) {
        let sig = if clause == "panic" { panic_sig(&detail) } else { clause.clone() };
        return Outcome::fail_sig(&clause, sig, detail, item.to_string());
    }
    Outcome::pass(true, hash_str(item)).with_case(item.to_string())
}

// ------------------------------------------------------------------ deep nesting (stack depth)

/// Lines that nest as deeply as the 1024-byte line limit allows. A stack overflow kills the
/// process, so each case runs in a child process (main thread, like the terminal).
const DEEP: &[(&str, &str, &str, &str)] = &[
    ("paren", "PRINT ", "(", ")"),
    ("neg", "PRINT ", "-", ""),
    ("not", "A=", "NOT ", ""),
    ("negparen", "A=", "-(", ")"),
    ("def", "10 DEF FNA(X)=", "(", ")"),
    ("subscript", "PRINT Q", "(Q", ")"),
    ("call", "PRINT ", "ABS(", ")"),
    ("strcall", "A$=", "LEFT$(", ",1)"),
    ("fncall", "PRINT ", "FNA(", ")"),
    ("ifthen", "", "IF 1 THEN ", ""),
    ("ifelse", "", "IF 0 THEN ELSE ", ""),
    ("power", "PRINT 2", "^(2", ")"),
];

fn deep_line(kind: &str, depth: usize) -> Option<String> {
    let (_, head, open, close) = DEEP.iter().find(|d| d.0 == kind)?;
    let core = match kind {
        "ifthen" | "ifelse" => "PRINT 1",
        "strcall" => "\"abc\"",
        _ => "1",
    };
    Some(format!("{}{}{}{}", head, open.repeat(depth), core, close.repeat(depth)))
}

fn gen_deep(part: usize, parts: usize, thorough: bool, emit: &mut dyn FnMut(&str)) {
    let mut idx = 0;
    for d in DEEP {
        // the deepest line that still fits into 1024 bytes, and a few shallower ones
        let unit = d.2.len() + d.3.len();
        let max = (1024 - d.1.len() - 8) / unit.max(1);
        let depths: Vec<usize> = if thorough { vec![max, max - 1, max * 3 / 4, max / 2, max / 4, 64] } else { vec![max, max / 2, 64] };
        for k in depths {
            idx += 1;
            if idx % parts == part {
                emit(&format!("{} {}", d.0, k));
            }
        }
    }
}

fn check_deep(item: &str, _ctx: &Ctx) -> Outcome {
    let mut it = item.split(' ');
    let kind = it.next().unwrap_or("");
    let depth: usize = it.next().and_then(|x| x.parse().ok()).unwrap_or(0);
    let line = match deep_line(kind, depth) {
        Some(l) if l.len() <= 1024 => l,
        _ => return Outcome::discard("does not fit into a line"),
    };
    let script = format!("10 DIM Q(1)\n{}\nRUN\nPRINT 1", line);
    let root = std::env::var("VERIF_ROOT").unwrap_or_else(|_| "/verif".into());
    let _ = std::fs::create_dir_all(format!("{}/replays", root));
    let path = format!("{}/replays/C03_deep_{}_{}.json", root, kind, depth);
    let j = serde_json::json!({"property": "C03", "check": "scripts", "item": script, "clause": "deep nesting, run in a child process"});
    if std::fs::write(&path, j.to_string()).is_err() {
        return Outcome::discard("cannot write the child's case file");
    }
    let exe = match std::env::current_exe() {
        Ok(e) => e,
        Err(_) => return Outcome::discard("no current_exe"),
    };
    let out = std::process::Command::new(exe).arg("C03").arg("--replay").arg(&path).env("VERIF_ROOT", &root).output();
    let case = format!("{} nested {} deep ({} bytes), entered, RUN, PRINT 1 — in a child process", kind, depth, line.len());
    match out {
        Err(_) => Outcome::discard("cannot spawn the child process"),
        Ok(o) => {
            let text = String::from_utf8_lossy(&o.stdout).to_string();
            match o.status.code() {
                Some(0) => {
                    let _ = std::fs::remove_file(&path);
                    Outcome::pass(depth > 64, hash_str(item)).with_case(case)
                }
                Some(1) => Outcome::fail_sig("panic", format!("deep:{}", kind), format!("child reported a violation:\n{}", text), format!("{}\nreplay of the child: {}", case, path)),
                Some(2) => Outcome::discard("child inconclusive"),
                _ => Outcome::fail_sig(
                    "abort",
                    format!("abort:{}", kind),
                    format!("the child process died ({:?}) — stack overflow or abort while handling the line; stderr: {}", o.status, String::from_utf8_lossy(&o.stderr).chars().take(400).collect::<String>()),
                    format!("{}\nreplay of the child: {}", case, path),
                ),
            }
        }
    }
}

/// Entry point of the libFuzzer target: the input bytes are the tape of one session.
/// Some(report) = the validity predicate failed.
pub fn fuzz_session(data: &[u8]) -> Option<String> {
    let ctx = Ctx { render: false, strict: true, thorough: true };
    let o = check_session(&mut Tape::new(data), &ctx);
    match o.v {
        crate::runner::V::Fail { clause, detail, .. } => Some(format!("{}: {}\n{}", clause, detail, o.case.unwrap_or_default())),
        _ => None,
    }
}

pub fn property() -> Property {
    Property {
        id: "C03",
        rule: "Cases: (lines) one entered line — statement snippets, token soup over the full vocabulary (every keyword, operator, number shape incl. 1E / 1EE / 40 digits, \
unterminated strings, non-ASCII), mutated snippets, arbitrary UTF-8, lines around the 1024-byte limit — driven under a random schedule (quanta 0..5000, an interrupt at a chosen \
execute call, INPUT replies incl. over-long ones, INKEY$ keys); (sessions) up to 14 protocol-respecting operations: lines, snippet programs + RUN/LIST/RENUM/DELETE/CONT, \
get_listing() snapshots held across later edits and dropped later, set_listing of generated files, interrupt while stopped. (deep_nesting) twelve nesting constructs (parentheses, unary minus, NOT, calls, user-function calls, subscripts, IF chains, ^) at the greatest depth a 1024-byte line allows and at fractions of it, each entered, RUN and followed by PRINT 1 in a child process whose death by signal is the failure. (code_boundary, shared with C18) direct statements of growing size beside stored programs that fill the 64K code pool to within 0..5 statements. Oracle: no library call panics (catch_unwind), every call \
returns (20 s watchdog, re-confirmed in a fresh process), after one interrupt() the runtime is Stopped within 16 execute calls and PRINT 1 prints 1. \
Non-trivial: a line with >= 2 tokens; a session that printed something and used an interrupt, an INPUT reply, or a snapshot alive during an edit. Distinct by text of the case.",
        assumptions: vec![
            "the calling protocol is the one of src/term/mod.rs: enter() only when Stopped or as the reply to Input/Inkey; interrupt() never between Event::Inkey and its enter(key)",
            "a BASIC error (including ?INTERNAL ERROR) is a report, not a crash; such texts are counted in the labels",
            "wedges are detected by a wall-clock watchdog and re-confirmed in a fresh process before being reported",
        ],
        subs: vec![
            Sub::items("scripts", gen_scripts, check_script, false),
            Sub::items("deep_nesting", gen_deep, check_deep, false).wedge(120),
            Sub::items("code_boundary", super::c18::gen_boundary, super::c18::check_boundary, false).wedge(600),
            Sub::tape("lines", check_line, 300_000, 12_000_000, 160),
            Sub::tape("sessions", check_session, 80_000, 3_000_000, 700),
        ],
    }
}
