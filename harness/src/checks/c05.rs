//! C05 — listing is faithful: LIST / SAVE then LOAD preserve every line's meaning.
//! Oracle: round trip. t1 = list(s), t2 = list(t1): same number, same meaning (column-free AST
//! or rejected in both), fixed point when accepted, literals and remarks preserved.

use crate::astnorm::meaning;
use crate::drive::{guarded, Ev, Opts, Term};
use crate::runner::{Ctx, Outcome, Property, Sub};
use crate::tape::{hash_str, Tape};
use crate::textgen::*;
use basic::lang::token::{Literal, Token, Word};
use basic::lang::Line;
use basic::mach::Listing;

struct Info {
    ntok: usize,
    changed: bool,
    has_lit: bool,
    accepted: bool,
}

fn literals(tokens: &[Token]) -> Vec<String> {
    let mut v = vec![];
    let mut rem = false;
    for t in tokens {
        match t {
            Token::Word(Word::Rem1) | Token::Word(Word::Rem2) => rem = true,
            Token::Literal(Literal::String(s)) if !rem => v.push(format!("S:{}", s)),
            Token::Unknown(s) if rem => {
                // an empty remark and no remark text are the same thing
                if !s.trim_end().is_empty() {
                    v.push(format!("R:{}", s.trim_end()))
                }
            }
            _ => {}
        }
    }
    v
}

fn roundtrip(s: &str, via_runtime: bool) -> Result<Info, (String, String)> {
    let r = guarded(|| {
        let l0 = Line::new(s);
        let t1 = l0.to_string();
        let l1 = Line::new(&t1);
        let t2 = l1.to_string();
        let (n0, tok0) = basic::lang::lex(s);
        let (_n1, tok1) = basic::lang::lex(&t1);
        (l0.number(), l1.number(), meaning(&l0), meaning(&l1), t1, t2, n0, tok0, tok1)
    });
    let (num0, num1, m0, m1, t1, t2, _n0, tok0, tok1) = match r {
        Ok(x) => x,
        Err(m) => return Err(("panic".into(), m)),
    };
    if num0 != num1 {
        return Err(("line-number-changed".into(), format!("{:?}: number {:?}, listed {:?} re-enters as number {:?}", s, num0, t1, num1)));
    }
    match (&m0, &m1) {
        (Ok(a), Ok(b)) => {
            if a != b {
                return Err(("meaning-changed".into(), format!("{:?} parses to\n  {}\nits listing {:?} parses to\n  {}", s, a, t1, b)));
            }
            if t1 != t2 {
                return Err(("not-a-fixed-point".into(), format!("{:?} lists as {:?}, which lists as {:?}", s, t1, t2)));
            }
        }
        (Err(_), Err(_)) => {}
        (Ok(a), Err(e)) => return Err(("accepted-then-rejected".into(), format!("{:?} is accepted ({}) but its listing {:?} is rejected: {}", s, a, t1, e))),
        (Err(e), Ok(b)) => return Err(("rejected-then-accepted".into(), format!("{:?} is rejected ({}) but its listing {:?} is accepted as {}", s, e, t1, b))),
    }
    let lit0 = literals(&tok0);
    let lit1 = literals(&tok1);
    if lit0 != lit1 {
        return Err(("literal-or-remark-changed".into(), format!("{:?}: literals/remarks {:?}, after listing {:?}: {:?}", s, lit0, t1, lit1)));
    }
    // SAVE/LOAD path and the runtime's own LIST
    // A line is "entered" when the file loader accepts its source text; then its listing must
    // load as well (the loader is the entry path that needs no terminal).
    let entered = num0.is_some() && !tok0.is_empty() && guarded(|| Listing::default().load_str(s).is_ok()).unwrap_or(false);
    if entered {
        let r = guarded(|| {
            let mut l = Listing::default();
            let res = l.load_str(&t1).map_err(|e| e.to_string());
            let texts: Vec<String> = l.lines().map(|x| x.to_string()).collect();
            let meanings: Vec<Result<String, String>> = l.lines().map(meaning).collect();
            let numbers: Vec<Option<u16>> = l.lines().map(|x| x.number()).collect();
            (res, texts, meanings, numbers)
        });
        match r {
            Err(m) => return Err(("panic".into(), m)),
            // (a rejected line only has to stay rejected: a refusal by the loader counts as that)
            Ok((Err(_), _, _, _)) if m0.is_err() => {}
            Ok((Err(e), _, _, _)) => return Err(("saved-line-does-not-load".into(), format!("{:?} ({} bytes) is accepted; its listing {:?} ({} bytes) is refused by the loader: {}", s, s.len(), t1, t1.len(), e))),
            Ok((Ok(()), texts, meanings, numbers)) => {
                if numbers != vec![num0] {
                    return Err(("save-load-changed-number".into(), format!("{:?}: saved as {:?}, loaded lines have numbers {:?}", s, t1, numbers)));
                }
                // the text must be identical when the line parses; a rejected line must stay rejected
                if m0.is_ok() && texts != vec![t1.clone()] {
                    return Err(("save-load-changed-text".into(), format!("{:?}: saved as {:?}, loaded listing shows {:?}", s, t1, texts)));
                }
                if meanings.len() != 1 || meanings[0].is_ok() != m0.is_ok() || (m0.is_ok() && meanings[0] != m0) {
                    return Err(("save-load-changed-meaning".into(), format!("{:?}: saved as {:?}, loaded line means {:?}, original {:?}", s, t1, meanings, m0)));
                }
            }
        }
    }
    if via_runtime && num0.is_some() && !tok0.is_empty() && s.len() <= 2100 {
        let mut term = Term::new();
        let mut o = Opts::default();
        term.line(s, &mut o);
        term.line("LIST", &mut o);
        let listed: Vec<String> = term.take().into_iter().filter_map(|e| if let Ev::List(t, _) = e { Some(t) } else { None }).collect();
        if m0.is_ok() && listed.is_empty() && s.len() <= 1024 && t1.len() <= 1024 {
            return Err(("runtime-list-differs".into(), format!("{:?}: a line that parses and fits the line limit ({} bytes typed, {} listed) was not stored", s, s.len(), t1.len())));
        }
        if m0.is_ok() && !listed.is_empty() && listed != vec![t1.clone()] {
            return Err(("runtime-list-differs".into(), format!("{:?}: LIST shows {:?}, Line::to_string gives {:?}", s, listed, t1)));
        }
        // SAVE then LOAD from the runtime's side: what the runtime stored must load
        if !listed.is_empty() && m0.is_ok() {
            let text = listed[0].clone();
            if let Ok(Err(e)) = guarded(|| Listing::default().load_str(&text).map_err(|e| e.to_string())) {
                return Err(("saved-line-does-not-load".into(), format!("{:?} ({} bytes) was accepted at the prompt; its listing ({} bytes, {} characters) is refused by the loader: {}", s, s.len(), text.len(), text.chars().count(), e)));
            }
        }
        // TAB edit: the listed text typed again stores the same line
        if !listed.is_empty() && m0.is_ok() {
            let mut term2 = Term::new();
            term2.line(&listed[0], &mut o);
            term2.take();
            term2.line("LIST", &mut o);
            let again: Vec<String> = term2.take().into_iter().filter_map(|e| if let Ev::List(t, _) = e { Some(t) } else { None }).collect();
            if again != listed {
                return Err(("listed-text-does-not-re-enter".into(), format!("{:?} is stored and listed as {:?} ({} bytes); typing that text again gives the listing {:?}", s, listed, listed[0].len(), again)));
            }
        }
    }
    let ntok = tok0.iter().filter(|t| !matches!(t, Token::Whitespace(_))).count();
    let mut canon = String::new();
    if let Some(n) = num0 {
        canon = format!("{} ", n);
    }
    let body: String = tok0.iter().map(|t| t.to_string()).collect();
    canon.push_str(&body);
    Ok(Info { ntok, changed: t1 != s, has_lit: !lit0.is_empty(), accepted: m0.is_ok() && canon == t1 })
}

fn outcome(s: &str, r: Result<Info, (String, String)>, ctx: &Ctx) -> Outcome {
    match r {
        Err((clause, detail)) => Outcome::fail(&clause, detail, format!("{:?}", s)),
        Ok(i) => {
            let mut labels = vec![];
            if i.accepted {
                labels.push("parses");
            } else {
                labels.push("rejected (both before and after listing)");
            }
            if i.changed {
                labels.push("lister changed the text");
            }
            let o = Outcome::pass(i.ntok >= 2 && (i.changed || i.has_lit), hash_str(s)).with_labels(labels);
            if ctx.render {
                o.with_case(format!("{:?} -> {:?}", s, Line::new(s).to_string()))
            } else {
                o
            }
        }
    }
}

// ------------------------------------------------------------------ exhaustive short strings

// The CLEAR context makes every token sequence part of an accepted line (CLEAR ignores its
// options), so the fixed-point clause applies to all of them, not only to well-formed statements.
const CONTEXTS: &[(&str, &str)] = &[("10 ", ""), ("10 ?", ""), ("10 A=", ""), ("10 IF ", " THEN 20"), ("", ""), ("10 ?1", ";2"), ("10 CLEAR ", ""), ("10 ?", "(1)")];

struct Alphabet {
    name: &'static str,
    symbols: &'static [&'static str],
    k_quick: usize,
    k_thorough: usize,
}

const ALPHABETS: &[Alphabet] = &[
    Alphabet { name: "numbers", symbols: &["0", "1", "9", ".", "E", "D", "e", "d", "+", "-", "!", "#", "%", "$", "&", "H", " "], k_quick: 4, k_thorough: 5 },
    Alphabet { name: "relational", symbols: &["<", ">", "=", " ", "A", "1", "\"", ":", "'", "?", "(", ")", ","], k_quick: 5, k_thorough: 6 },
    Alphabet { name: "letters", symbols: &["G", "O", "T", "S", "U", "B", " ", "R", "E", "M", "I", "F", "N", "1", "$"], k_quick: 4, k_thorough: 5 },
    Alphabet {
        name: "words",
        symbols: &["GO", " ", "TO", "SUB", "REM", "IF", "THEN", "ELSE", "FN", "A", "1", "\"", "é", ":", "=", "PRINT", "DATA", "'", "X$", "NOT", "MOD", "-", "1E", "&H", "FOR", "OR", "<", ">", "OT"],
        k_quick: 3,
        k_thorough: 4,
    },
    // blanks that are not BASIC blanks: vertical tab, form feed, no-break space, ideographic space
    Alphabet { name: "blanks", symbols: &[" ", "\t", "\u{b}", "\u{c}", "\u{a0}", "\u{3000}", "A", "1", "\"", "'", ":", "REM", "="], k_quick: 4, k_thorough: 5 },
];

fn enumerate_alphabet(a: &Alphabet, part: usize, parts: usize, thorough: bool, emit: &mut dyn FnMut(&str)) {
    let k = if thorough { a.k_thorough } else { a.k_quick };
    let n = a.symbols.len();
    let mut idx: usize = 0;
    for len in 0..=k {
        let total = n.pow(len as u32);
        for code in 0..total {
            idx += 1;
            if idx % parts != part {
                continue;
            }
            let mut c = code;
            let mut body = String::new();
            for _ in 0..len {
                body.push_str(a.symbols[c % n]);
                c /= n;
            }
            for (pre, post) in CONTEXTS {
                emit(&format!("{}{}{}", pre, body, post));
            }
        }
    }
}

fn gen_numbers(p: usize, n: usize, th: bool, e: &mut dyn FnMut(&str)) {
    enumerate_alphabet(&ALPHABETS[0], p, n, th, e)
}
fn gen_relational(p: usize, n: usize, th: bool, e: &mut dyn FnMut(&str)) {
    enumerate_alphabet(&ALPHABETS[1], p, n, th, e)
}
fn gen_letters(p: usize, n: usize, th: bool, e: &mut dyn FnMut(&str)) {
    enumerate_alphabet(&ALPHABETS[2], p, n, th, e)
}
fn gen_words(p: usize, n: usize, th: bool, e: &mut dyn FnMut(&str)) {
    enumerate_alphabet(&ALPHABETS[3], p, n, th, e)
}

fn gen_blanks(p: usize, n: usize, th: bool, e: &mut dyn FnMut(&str)) {
    enumerate_alphabet(&ALPHABETS[4], p, n, th, e)
}

fn check_item(item: &str, ctx: &Ctx) -> Outcome {
    outcome(item, roundtrip(item, false), ctx)
}

fn check_item_rt(item: &str, ctx: &Ctx) -> Outcome {
    outcome(item, roundtrip(item, true), ctx)
}

// ------------------------------------------------------------------ random long lines

fn check_random(t: &mut Tape, ctx: &Ctx) -> Outcome {
    let s = match t.below(6) {
        0 => soup_line(t, 25),
        1 => {
            let base = format!("{} {}", line_number_text(t), snippet_line(t));
            mutate(t, &base)
        }
        2 => spelled_snippet(t),
        3 if t.chance(1, 3) => limit_line(t),
        _ => any_line(t),
    };
    if s.contains('\n') || s.contains('\r') {
        // a line of a file or of the terminal never contains a line terminator
        return Outcome::discard("contains a line terminator");
    }
    outcome(&s, roundtrip(&s, true), ctx)
}

/// A canonical line whose text is within a few bytes of the 1024-byte line limit (both sides).
fn limit_line(t: &mut Tape) -> String {
    let target = (1024 + t.range(-3, 2)) as usize;
    if t.chance(1, 3) {
        // compact spelling: the listing is longer than what was typed
        let unit = *t.pick(&["IFA<2THEN10:", "A=1:", "FORI=1TO2:NEXTI:", "?A;B:", "GOTO10:"]);
        let total = (1024 - t.below(300)) as usize;
        let mut s = String::from("10 ");
        while s.len() + unit.len() + 3 <= total {
            s.push_str(unit);
        }
        s.push_str("A=1");
        return s;
    }
    let (head, tail) = match t.below(4) {
        0 => ("10 REM ", ""),
        1 => ("10 PRINT \"", "\""),
        2 => ("65529 A$ = \"", "\":GOTO 65529"),
        _ => ("10 '", ""),
    };
    let unit = *t.pick(&["x", "é", "ab ", "日"]);
    let mut mid = String::new();
    while head.len() + mid.len() + tail.len() + unit.len() <= target {
        mid.push_str(unit);
    }
    while head.len() + mid.len() + tail.len() < target {
        mid.push('y');
    }
    format!("{}{}{}", head, mid, tail)
}

/// A snippet line in a random spelling: random case, blanks dropped/added between tokens.
fn spelled_snippet(t: &mut Tape) -> String {
    let base = format!("{} {}", line_number_text(t), snippet_line(t));
    let mut out = String::new();
    let mut in_str = false;
    for c in base.chars() {
        if c == '"' {
            in_str = !in_str;
        }
        if in_str {
            out.push(c);
            continue;
        }
        if c == ' ' {
            match t.below(4) {
                0 => {}
                1 => out.push_str("  "),
                _ => out.push(' '),
            }
            continue;
        }
        if t.chance(1, 3) {
            out.push(c.to_ascii_lowercase());
        } else {
            out.push(c);
        }
    }
    out
}

// ------------------------------------------------------------------ corpus / regressions

const CORPUS: &[&str] = &[
    "10 ?1E1e",
    "10 PRINT 1/3D;",
    "10 PRINT 1D:",
    "10 A=1E:B=2",
    "10 ?1d+",
    "10 PRINT \"unterminated",
    "10 REM  trailing blanks   ",
    "10 'é REM \"x",
    "10 IF A THEN 20 ELSE 30",
    "10 if10then10else10",
    "10 GO TO 20:GO SUB 30",
    "10 A=<B:A=>B:A< >B:A> =B",
    "10 FORI=1TO10STEP2:NEXTI",
    "10 ?&hff;&o17;&17",
    "10 DATA 1,-2,\"X\"",
    "10 PRINT 12345678;1234567;1.2345678;1E5;1D5;7%;7!;7#",
    "65529 END",
    "0 REM",
    "ELSE =< =",
    "10 PRINT 1 ELSE =< =",
    "10 IF A THEN PRINT 1 ELSE PRINT 2 ELSE < = >",
];

fn gen_corpus(part: usize, parts: usize, _th: bool, emit: &mut dyn FnMut(&str)) {
    for (i, s) in CORPUS.iter().enumerate() {
        if i % parts == part {
            emit(s);
        }
    }
}

/// Entry point of the libFuzzer target: the input bytes are one source line.
pub fn fuzz_line(data: &[u8]) -> Option<String> {
    let s = match std::str::from_utf8(data) {
        Ok(s) => s,
        Err(_) => return None,
    };
    if s.contains('\n') || s.contains('\r') || s.len() > 1100 {
        return None;
    }
    match roundtrip(s, false) {
        Ok(_) => None,
        Err((clause, detail)) => Some(format!("{}: {}", clause, detail)),
    }
}

pub fn property() -> Property {
    Property {
        id: "C05",
        rule: "Cases: (a) exhaustively all strings of <= k symbols (k = 3..4 quick, 4..6 thorough) over four lexically significant alphabets — number characters (digits . E D e d + - ! # % $ & H), \
relational/punctuation characters, the letters of GO TO SUB REM IF FN, blanks that are not BASIC blanks (vertical tab, form feed, no-break and ideographic space), and a word-level alphabet (GO TO SUB REM IF THEN ELSE FN PRINT DATA ' \" é 1E &H ...) — each embedded in seven contexts \
(`10 •`, `10 ?•`, `10 A=•`, `10 IF • THEN 20`, direct, `10 ?1•;2`, `10 CLEAR •` — CLEAR ignores its options, so every token sequence there is part of an accepted line); (b) proptest-generated long lines: token soup, mutated and re-spelled statement snippets, arbitrary UTF-8, lines at the 1024-byte limit; \
(c) a corpus of lines from the repository's tests and earlier findings. Oracle (round trip): t1 = Line::new(s).to_string(), t2 = Line::new(t1).to_string(): same line number; column-free AST of s and t1 equal, or both rejected; \
t2 == t1 when accepted; string literals and remark texts equal; Listing::load_str(t1) reproduces t1; for generated lines also the runtime's LIST event equals t1. \
Non-trivial: >= 2 tokens and (the lister changed the text, or the line holds a literal/remark). Distinct by source text.",
        assumptions: vec![
            "meaning = the public AST (basic::lang::ast) with source columns erased, compared by a hand-written walker",
            "the file layer of SAVE/LOAD (one listed line per file line) is emulated by Listing::load_str on the listed text",
            "source lines never contain a line terminator (the terminal and the file reader split on them)",
        ],
        subs: vec![
            Sub::items("corpus", gen_corpus, check_item_rt, false),
            Sub::items("exhaustive_numbers", gen_numbers, check_item, true),
            Sub::items("exhaustive_relational", gen_relational, check_item, true),
            Sub::items("exhaustive_letters", gen_letters, check_item, true),
            Sub::items("exhaustive_words", gen_words, check_item, true),
            Sub::items("exhaustive_blanks", gen_blanks, check_item, true),
            Sub::tape("random_lines", check_random, 200_000, 8_000_000, 200),
        ],
    }
}
