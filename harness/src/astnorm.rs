//! Column-free canonical form of the implementation's public AST (hand-written walker over
//! `basic::lang::ast`, no `Debug` string surgery). Two lines "mean the same" when these agree.

use basic::lang::ast::{Expression, Ident, Statement, Variable};

pub fn ident(i: &Ident) -> String {
    match i {
        Ident::Plain(s) => format!("{}", s),
        Ident::String(s) => format!("{}", s),
        Ident::Single(s) => format!("{}", s),
        Ident::Double(s) => format!("{}", s),
        Ident::Integer(s) => format!("{}", s),
    }
}

fn ident_tagged(i: &Ident) -> String {
    // function parameters are stored under "<parameter>.<function>.<suffix>"
    let raw = ident(i);
    if raw.contains('.') {
        let base = raw.split('.').next().unwrap_or("");
        let suffix = raw.rsplit('.').next().unwrap_or("");
        let letter = match i {
            Ident::Plain(_) => 'p',
            Ident::String(_) => 's',
            Ident::Single(_) => 'f',
            Ident::Double(_) => 'd',
            Ident::Integer(_) => 'i',
        };
        return format!("{}:param:{}{}", letter, base, suffix);
    }
    match i {
        Ident::Plain(s) => format!("p:{}", s),
        Ident::String(s) => format!("s:{}", s),
        Ident::Single(s) => format!("f:{}", s),
        Ident::Double(s) => format!("d:{}", s),
        Ident::Integer(s) => format!("i:{}", s),
    }
}

pub fn var(v: &Variable) -> String {
    match v {
        Variable::Unary(_, i) => format!("V[{}]", ident_tagged(i)),
        Variable::Array(_, i, es) => format!("A[{}]({})", ident_tagged(i), exprs(es)),
    }
}

fn vars(v: &[Variable]) -> String {
    v.iter().map(var).collect::<Vec<_>>().join(",")
}

pub fn exprs(v: &[Expression]) -> String {
    v.iter().map(expr).collect::<Vec<_>>().join(",")
}

pub fn expr(e: &Expression) -> String {
    use Expression::*;
    let bin = |n: &str, a: &Expression, b: &Expression| format!("{}({},{})", n, expr(a), expr(b));
    match e {
        Variable(v) => var(v),
        Single(_, x) => format!("S#{:08x}", x.to_bits()),
        Double(_, x) => format!("D#{:016x}", x.to_bits()),
        Integer(_, x) => format!("I#{}", x),
        String(_, s) => format!("T{:?}", s),
        Negation(_, a) => format!("Neg({})", expr(a)),
        Not(_, a) => format!("Not({})", expr(a)),
        Power(_, a, b) => bin("Pow", a, b),
        Multiply(_, a, b) => bin("Mul", a, b),
        Divide(_, a, b) => bin("Div", a, b),
        DivideInt(_, a, b) => bin("DivInt", a, b),
        Modulo(_, a, b) => bin("Mod", a, b),
        Add(_, a, b) => bin("Add", a, b),
        Subtract(_, a, b) => bin("Sub", a, b),
        Equal(_, a, b) => bin("Eq", a, b),
        NotEqual(_, a, b) => bin("Ne", a, b),
        Less(_, a, b) => bin("Lt", a, b),
        LessEqual(_, a, b) => bin("Le", a, b),
        Greater(_, a, b) => bin("Gt", a, b),
        GreaterEqual(_, a, b) => bin("Ge", a, b),
        And(_, a, b) => bin("And", a, b),
        Or(_, a, b) => bin("Or", a, b),
        Xor(_, a, b) => bin("Xor", a, b),
        Imp(_, a, b) => bin("Imp", a, b),
        Eqv(_, a, b) => bin("Eqv", a, b),
    }
}

pub fn stmts(v: &[Statement]) -> String {
    v.iter().map(stmt).collect::<Vec<_>>().join(";")
}

pub fn stmt(s: &Statement) -> String {
    use Statement::*;
    match s {
        Clear(_) => "Clear".into(),
        Cls(_) => "Cls".into(),
        Cont(_) => "Cont".into(),
        Data(_, es) => format!("Data({})", exprs(es)),
        Def(_, f, ps, e) => format!("Def({};{};{})", var(f), vars(ps), expr(e)),
        Defdbl(_, a, b) => format!("Defdbl({},{})", var(a), var(b)),
        Defint(_, a, b) => format!("Defint({},{})", var(a), var(b)),
        Defsng(_, a, b) => format!("Defsng({},{})", var(a), var(b)),
        Defstr(_, a, b) => format!("Defstr({},{})", var(a), var(b)),
        Delete(_, a, b) => format!("Delete({},{})", expr(a), expr(b)),
        Dim(_, vs) => format!("Dim({})", vars(vs)),
        End(_) => "End".into(),
        Erase(_, vs) => format!("Erase({})", vars(vs)),
        For(_, v, a, b, c) => format!("For({};{};{};{})", var(v), expr(a), expr(b), expr(c)),
        Gosub(_, e) => format!("Gosub({})", expr(e)),
        Goto(_, e) => format!("Goto({})", expr(e)),
        If(_, p, t, e) => format!("If({};[{}];[{}])", expr(p), stmts(t), stmts(e)),
        Input(_, caps, prompt, vs) => format!("Input({};{};{})", expr(caps), expr(prompt), vars(vs)),
        Let(_, v, e) => format!("Let({};{})", var(v), expr(e)),
        List(_, a, b) => format!("List({},{})", expr(a), expr(b)),
        Load(_, e) => format!("Load({})", expr(e)),
        Mid(_, v, a, b, c) => format!("Mid({};{};{};{})", var(v), expr(a), expr(b), expr(c)),
        New(_) => "New".into(),
        Next(_, vs) => format!("Next({})", vars(vs)),
        OnGoto(_, e, ls) => format!("OnGoto({};{})", expr(e), exprs(ls)),
        OnGosub(_, e, ls) => format!("OnGosub({};{})", expr(e), exprs(ls)),
        Print(_, es) => format!("Print({})", exprs(es)),
        Read(_, vs) => format!("Read({})", vars(vs)),
        Renum(_, a, b, c) => format!("Renum({},{},{})", expr(a), expr(b), expr(c)),
        Restore(_, e) => format!("Restore({})", expr(e)),
        Return(_) => "Return".into(),
        Run(_, e) => format!("Run({})", expr(e)),
        Save(_, e) => format!("Save({})", expr(e)),
        Stop(_) => "Stop".into(),
        Swap(_, a, b) => format!("Swap({},{})", var(a), var(b)),
        Troff(_) => "Troff".into(),
        Tron(_) => "Tron".into(),
        Wend(_) => "Wend".into(),
        While(_, e) => format!("While({})", expr(e)),
    }
}

/// Canonical meaning of a source line: Ok(ast form) or Err(()) when the parser rejects it.
pub fn meaning(line: &basic::lang::Line) -> Result<String, String> {
    match line.ast() {
        Ok(v) => Ok(stmts(&v)),
        Err(e) => Err(e.to_string()),
    }
}
