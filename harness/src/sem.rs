//! Reference semantics of values, operators, functions, conversion and number formatting,
//! written from the manual (src/doc) and the listed properties — it shares no code with the
//! implementation. See DESIGN.md Appendix A for the source of every decision.

#[derive(Clone, Copy, Debug, PartialEq, Eq, Hash, PartialOrd, Ord)]
pub enum Ty {
    Int,
    Sng,
    Dbl,
    Str,
}

#[derive(Clone, Debug, PartialEq)]
pub enum Val {
    Int(i16),
    Sng(f32),
    Dbl(f64),
    Str(String),
}

#[derive(Clone, Copy, Debug, PartialEq, Eq, Hash)]
pub enum BErr {
    NextWithoutFor,
    Syntax,
    ReturnWithoutGosub,
    OutOfData,
    IllegalFunctionCall,
    Overflow,
    OutOfMemory,
    UndefinedLine,
    Subscript,
    Redim,
    DivZero,
    IllegalDirect,
    TypeMismatch,
    StringTooLong,
    CantContinue,
    UndefinedUserFunction,
    Break,
}

impl BErr {
    pub fn text(&self) -> &'static str {
        use BErr::*;
        match self {
            NextWithoutFor => "?NEXT WITHOUT FOR",
            Syntax => "?SYNTAX ERROR",
            ReturnWithoutGosub => "?RETURN WITHOUT GOSUB",
            OutOfData => "?OUT OF DATA",
            IllegalFunctionCall => "?ILLEGAL FUNCTION CALL",
            Overflow => "?OVERFLOW",
            OutOfMemory => "?OUT OF MEMORY",
            UndefinedLine => "?UNDEFINED LINE",
            Subscript => "?SUBSCRIPT OUT OF RANGE",
            Redim => "?REDIMENSIONED ARRAY",
            DivZero => "?DIVISION BY ZERO",
            IllegalDirect => "?ILLEGAL DIRECT",
            TypeMismatch => "?TYPE MISMATCH",
            StringTooLong => "?STRING TOO LONG",
            CantContinue => "?CAN'T CONTINUE",
            UndefinedUserFunction => "?UNDEFINED USER FUNCTION",
            Break => "?BREAK",
        }
    }
}

pub type R = Result<Val, BErr>;

impl Val {
    pub fn ty(&self) -> Ty {
        match self {
            Val::Int(_) => Ty::Int,
            Val::Sng(_) => Ty::Sng,
            Val::Dbl(_) => Ty::Dbl,
            Val::Str(_) => Ty::Str,
        }
    }
    pub fn default_of(t: Ty) -> Val {
        match t {
            Ty::Int => Val::Int(0),
            Ty::Sng => Val::Sng(0.0),
            Ty::Dbl => Val::Dbl(0.0),
            Ty::Str => Val::Str(String::new()),
        }
    }
    pub fn is_num(&self) -> bool {
        !matches!(self, Val::Str(_))
    }
    pub fn as_f64(&self) -> Option<f64> {
        match self {
            Val::Int(n) => Some(*n as f64),
            Val::Sng(x) => Some(*x as f64),
            Val::Dbl(x) => Some(*x),
            Val::Str(_) => None,
        }
    }
    pub fn is_default(&self) -> bool {
        match self {
            Val::Int(n) => *n == 0,
            Val::Sng(x) => *x == 0.0,
            Val::Dbl(x) => *x == 0.0,
            Val::Str(s) => s.is_empty(),
        }
    }
    /// Identity including the bits of floats (NaN == NaN, 0.0 != -0.0).
    pub fn same(&self, o: &Val) -> bool {
        match (self, o) {
            (Val::Int(a), Val::Int(b)) => a == b,
            (Val::Sng(a), Val::Sng(b)) => a.to_bits() == b.to_bits() || (a.is_nan() && b.is_nan()),
            (Val::Dbl(a), Val::Dbl(b)) => a.to_bits() == b.to_bits() || (a.is_nan() && b.is_nan()),
            (Val::Str(a), Val::Str(b)) => a == b,
            _ => false,
        }
    }
}

/// Side information about an evaluation: set when the result depends on something the manual
/// leaves open (float `=` within the undocumented tolerance, transcendental rounding).
#[derive(Default, Clone, Debug)]
pub struct Flags {
    pub fuzzy_eq: bool,
    pub approx: bool,
}

// ------------------------------------------------------------------ conversions

/// Float to Integer: floor, then range check (CINT(-9.9) = -10 in the manual).
pub fn to_int(v: &Val) -> Result<i16, BErr> {
    match v {
        Val::Int(n) => Ok(*n),
        Val::Sng(x) => f_to_int(*x as f64),
        Val::Dbl(x) => f_to_int(*x),
        Val::Str(_) => Err(BErr::TypeMismatch),
    }
}

fn f_to_int(x: f64) -> Result<i16, BErr> {
    let f = x.floor();
    if f >= -32768.0 && f <= 32767.0 {
        Ok(f as i16)
    } else {
        Err(BErr::Overflow)
    }
}

/// Conversion on assignment to a variable of type `t`.
pub fn convert(t: Ty, v: &Val) -> R {
    match (t, v) {
        (Ty::Str, Val::Str(s)) => {
            if s.chars().count() > 255 {
                Err(BErr::StringTooLong)
            } else {
                Ok(Val::Str(s.clone()))
            }
        }
        (Ty::Str, _) => Err(BErr::TypeMismatch),
        (_, Val::Str(_)) => Err(BErr::TypeMismatch),
        (Ty::Int, _) => Ok(Val::Int(to_int(v)?)),
        (Ty::Sng, Val::Int(n)) => Ok(Val::Sng(*n as f32)),
        (Ty::Sng, Val::Sng(x)) => Ok(Val::Sng(*x)),
        (Ty::Sng, Val::Dbl(x)) => Ok(Val::Sng(*x as f32)),
        (Ty::Dbl, Val::Int(n)) => Ok(Val::Dbl(*n as f64)),
        (Ty::Dbl, Val::Sng(x)) => Ok(Val::Dbl(*x as f64)),
        (Ty::Dbl, Val::Dbl(x)) => Ok(Val::Dbl(*x)),
    }
}

/// What a variable reads back after `v` was stored in it: zero values are not stored (sparse
/// store, "unassigned variables read as 0"), so -0.0 reads back as 0.
pub fn stored(v: &Val) -> Val {
    match v {
        Val::Sng(x) if *x == 0.0 => Val::Sng(0.0),
        Val::Dbl(x) if *x == 0.0 => Val::Dbl(0.0),
        other => other.clone(),
    }
}

/// Non-negative count/position arguments (LEFT$, SPC, ...): floor; negative is an error.
fn to_count(v: &Val) -> Result<u64, BErr> {
    match v {
        Val::Str(_) => Err(BErr::TypeMismatch),
        _ => {
            let x = v.as_f64().unwrap().floor();
            if x.is_nan() || x < 0.0 || x > 1e18 {
                Err(BErr::Overflow)
            } else {
                Ok(x as u64)
            }
        }
    }
}

// ------------------------------------------------------------------ operators

#[derive(Clone, Copy, Debug, PartialEq, Eq, Hash)]
pub enum Bin {
    Pow,
    Mul,
    Div,
    IDiv,
    Mod,
    Add,
    Sub,
    Eq,
    Ne,
    Lt,
    Le,
    Gt,
    Ge,
    And,
    Or,
    Xor,
    Imp,
    Eqv,
}

impl Bin {
    pub fn text(&self) -> &'static str {
        use Bin::*;
        match self {
            Pow => "^",
            Mul => "*",
            Div => "/",
            IDiv => "\\",
            Mod => "MOD",
            Add => "+",
            Sub => "-",
            Eq => "=",
            Ne => "<>",
            Lt => "<",
            Le => "<=",
            Gt => ">",
            Ge => ">=",
            And => "AND",
            Or => "OR",
            Xor => "XOR",
            Imp => "IMP",
            Eqv => "EQV",
        }
    }
    /// The manual's precedence table (chapter 1): 13 = binds tightest.
    pub fn prec(&self) -> u8 {
        use Bin::*;
        match self {
            Pow => 13,
            Mul | Div => 11,
            IDiv => 10,
            Mod => 9,
            Add | Sub => 8,
            Eq | Ne | Lt | Le | Gt | Ge => 7,
            And => 5,
            Or => 4,
            Xor => 3,
            Imp => 2,
            Eqv => 1,
        }
    }
    pub fn is_word(&self) -> bool {
        use Bin::*;
        matches!(self, Mod | And | Or | Xor | Imp | Eqv)
    }
    pub const ALL: [Bin; 18] = [
        Bin::Pow,
        Bin::Mul,
        Bin::Div,
        Bin::IDiv,
        Bin::Mod,
        Bin::Add,
        Bin::Sub,
        Bin::Eq,
        Bin::Ne,
        Bin::Lt,
        Bin::Le,
        Bin::Gt,
        Bin::Ge,
        Bin::And,
        Bin::Or,
        Bin::Xor,
        Bin::Imp,
        Bin::Eqv,
    ];
}

pub const PREC_NEG: u8 = 12;
pub const PREC_NOT: u8 = 6;

#[derive(Clone, Copy, PartialEq)]
enum Rank {
    I,
    S,
    D,
}

fn rank(a: &Val, b: &Val) -> Result<Rank, BErr> {
    let r = |v: &Val| match v {
        Val::Int(_) => Ok(0),
        Val::Sng(_) => Ok(1),
        Val::Dbl(_) => Ok(2),
        Val::Str(_) => Err(BErr::TypeMismatch),
    };
    Ok(match r(a)?.max(r(b)?) {
        0 => Rank::I,
        1 => Rank::S,
        _ => Rank::D,
    })
}

fn f32_of(v: &Val) -> f32 {
    match v {
        Val::Int(n) => *n as f32,
        Val::Sng(x) => *x,
        Val::Dbl(x) => *x as f32,
        Val::Str(_) => 0.0,
    }
}

fn f64_of(v: &Val) -> f64 {
    v.as_f64().unwrap_or(0.0)
}

fn b(x: bool) -> Val {
    Val::Int(if x { -1 } else { 0 })
}

pub fn negate(v: &Val) -> R {
    match v {
        Val::Int(n) => n.checked_neg().map(Val::Int).ok_or(BErr::Overflow),
        Val::Sng(x) => Ok(Val::Sng(-*x)),
        Val::Dbl(x) => Ok(Val::Dbl(-*x)),
        Val::Str(_) => Err(BErr::TypeMismatch),
    }
}

pub fn not(v: &Val) -> R {
    Ok(Val::Int(!to_int(v)?))
}

pub fn binop(op: Bin, a: &Val, c: &Val, fl: &mut Flags) -> R {
    use Bin::*;
    match op {
        Add => {
            if let (Val::Str(x), Val::Str(y)) = (a, c) {
                return Ok(Val::Str(format!("{}{}", x, y)));
            }
            arith(op, a, c)
        }
        Sub | Mul => arith(op, a, c),
        Div => match rank(a, c)? {
            Rank::I | Rank::S => Ok(Val::Sng(f32_of(a) / f32_of(c))),
            Rank::D => Ok(Val::Dbl(f64_of(a) / f64_of(c))),
        },
        Pow => power(a, c, fl),
        IDiv | Mod => {
            let x = to_int(a)? as i32;
            let y = to_int(c)? as i32;
            if y == 0 {
                return Err(BErr::DivZero);
            }
            let r = if op == IDiv { x / y } else { x % y };
            if r < -32768 || r > 32767 {
                Err(BErr::Overflow)
            } else {
                Ok(Val::Int(r as i16))
            }
        }
        Eq | Ne => {
            let e = match (a, c) {
                (Val::Str(x), Val::Str(y)) => x == y,
                (Val::Str(_), _) | (_, Val::Str(_)) => return Err(BErr::TypeMismatch),
                _ => match rank(a, c)? {
                    Rank::I => a == c,
                    Rank::S => {
                        let (x, y) = (f32_of(a), f32_of(c));
                        if !x.is_finite() || !y.is_finite() {
                            fl.fuzzy_eq = true;
                        } else if x != y && (x - y).abs() <= 4.0 * f32::EPSILON {
                            fl.fuzzy_eq = true;
                        }
                        x == y
                    }
                    Rank::D => {
                        let (x, y) = (f64_of(a), f64_of(c));
                        if !x.is_finite() || !y.is_finite() {
                            fl.fuzzy_eq = true;
                        } else if x != y && (x - y).abs() <= 4.0 * f64::EPSILON {
                            fl.fuzzy_eq = true;
                        }
                        x == y
                    }
                },
            };
            Ok(b(if op == Eq { e } else { !e }))
        }
        Lt | Le | Gt | Ge => {
            let ord = |lt: bool, eq: bool| match op {
                Lt => lt,
                Le => lt || eq,
                Gt => !lt && !eq,
                _ => !lt,
            };
            match (a, c) {
                (Val::Str(x), Val::Str(y)) => Ok(b(ord(x < y, x == y))),
                (Val::Str(_), _) | (_, Val::Str(_)) => Err(BErr::TypeMismatch),
                _ => {
                    let (lt, eq, nan) = match rank(a, c)? {
                        Rank::I => (to_int(a)? < to_int(c)?, a == c, false),
                        Rank::S => {
                            let (x, y) = (f32_of(a), f32_of(c));
                            (x < y, x == y, x.is_nan() || y.is_nan())
                        }
                        Rank::D => {
                            let (x, y) = (f64_of(a), f64_of(c));
                            (x < y, x == y, x.is_nan() || y.is_nan())
                        }
                    };
                    if nan {
                        // comparisons with NaN: the manual is silent on whether > is "not <="
                        fl.fuzzy_eq = true;
                    }
                    Ok(b(ord(lt, eq)))
                }
            }
        }
        And | Or | Xor | Imp | Eqv => {
            let x = to_int(a)?;
            let y = to_int(c)?;
            Ok(Val::Int(match op {
                And => x & y,
                Or => x | y,
                Xor => x ^ y,
                Imp => !x | y,
                _ => !(x ^ y),
            }))
        }
    }
}

fn arith(op: Bin, a: &Val, c: &Val) -> R {
    match rank(a, c)? {
        Rank::I => {
            let (x, y) = (to_int(a)?, to_int(c)?);
            let r = match op {
                Bin::Add => x.checked_add(y),
                Bin::Sub => x.checked_sub(y),
                _ => x.checked_mul(y),
            };
            r.map(Val::Int).ok_or(BErr::Overflow)
        }
        Rank::S => {
            let (x, y) = (f32_of(a), f32_of(c));
            Ok(Val::Sng(match op {
                Bin::Add => x + y,
                Bin::Sub => x - y,
                _ => x * y,
            }))
        }
        Rank::D => {
            let (x, y) = (f64_of(a), f64_of(c));
            Ok(Val::Dbl(match op {
                Bin::Add => x + y,
                Bin::Sub => x - y,
                _ => x * y,
            }))
        }
    }
}

fn power(a: &Val, c: &Val, fl: &mut Flags) -> R {
    match rank(a, c)? {
        Rank::I => {
            let (x, y) = (to_int(a)? as i64, to_int(c)? as i64);
            if y >= 0 {
                let mut r: i64 = 1;
                for _ in 0..y {
                    r = r.saturating_mul(x);
                    if r.abs() > 1 << 40 {
                        break;
                    }
                }
                if r < -32768 || r > 32767 {
                    Err(BErr::Overflow)
                } else {
                    Ok(Val::Int(r as i16))
                }
            } else {
                fl.approx = true;
                Ok(Val::Sng((x as f32).powi(y as i32)))
            }
        }
        Rank::S => {
            fl.approx = true;
            Ok(Val::Sng(match c {
                Val::Int(n) => f32_of(a).powi(*n as i32),
                _ => f32_of(a).powf(f32_of(c)),
            }))
        }
        Rank::D => {
            fl.approx = true;
            Ok(Val::Dbl(match c {
                Val::Int(n) => f64_of(a).powi(*n as i32),
                _ => f64_of(a).powf(f64_of(c)),
            }))
        }
    }
}

// ------------------------------------------------------------------ functions

fn need_str(v: &Val) -> Result<&str, BErr> {
    match v {
        Val::Str(s) => Ok(s),
        _ => Err(BErr::TypeMismatch),
    }
}

fn need_num(v: &Val) -> Result<(), BErr> {
    if v.is_num() {
        Ok(())
    } else {
        Err(BErr::TypeMismatch)
    }
}

fn trans(v: &Val, f32f: fn(f32) -> f32, f64f: fn(f64) -> f64, fl: &mut Flags) -> R {
    need_num(v)?;
    fl.approx = true;
    Ok(match v {
        Val::Dbl(x) => Val::Dbl(f64f(*x)),
        _ => Val::Sng(f32f(f32_of(v))),
    })
}

/// `Err(None)` = the manual does not name the error code ("some BASIC error").
pub type FR = Result<Val, Option<BErr>>;

fn e(x: BErr) -> Option<BErr> {
    Some(x)
}

pub fn call(name: &str, args: &[Val], print_col: usize, fl: &mut Flags) -> FR {
    let a0 = args.first();
    let arity = |lo: usize, hi: usize| if args.len() < lo || args.len() > hi { Err(e(BErr::IllegalFunctionCall)) } else { Ok(()) };
    match name {
        "ABS" => {
            arity(1, 1)?;
            match a0.unwrap() {
                Val::Int(n) => n.checked_abs().map(Val::Int).ok_or(e(BErr::Overflow)),
                Val::Sng(x) => Ok(Val::Sng(x.abs())),
                Val::Dbl(x) => Ok(Val::Dbl(x.abs())),
                _ => Err(e(BErr::TypeMismatch)),
            }
        }
        "SGN" => {
            arity(1, 1)?;
            let v = a0.unwrap();
            need_num(v).map_err(e)?;
            let x = f64_of(v);
            if x.is_nan() {
                fl.fuzzy_eq = true;
            }
            Ok(Val::Int(if x == 0.0 {
                0
            } else if x < 0.0 {
                -1
            } else {
                1
            }))
        }
        "INT" | "FIX" => {
            arity(1, 1)?;
            let fix = name == "FIX";
            match a0.unwrap() {
                Val::Int(n) => Ok(Val::Int(*n)),
                Val::Sng(x) => Ok(Val::Sng(if fix { x.trunc() } else { x.floor() })),
                Val::Dbl(x) => Ok(Val::Dbl(if fix { x.trunc() } else { x.floor() })),
                _ => Err(e(BErr::TypeMismatch)),
            }
        }
        "CINT" => {
            arity(1, 1)?;
            Ok(Val::Int(to_int(a0.unwrap()).map_err(e)?))
        }
        "CSNG" => {
            arity(1, 1)?;
            convert(Ty::Sng, a0.unwrap()).map_err(e)
        }
        "CDBL" => {
            arity(1, 1)?;
            convert(Ty::Dbl, a0.unwrap()).map_err(e)
        }
        "SQR" => {
            arity(1, 1)?;
            // correctly rounded in IEEE: exact
            let v = a0.unwrap();
            need_num(v).map_err(e)?;
            Ok(match v {
                Val::Dbl(x) => Val::Dbl(x.sqrt()),
                _ => Val::Sng(f32_of(v).sqrt()),
            })
        }
        "EXP" => {
            arity(1, 1)?;
            trans(a0.unwrap(), f32::exp, f64::exp, fl).map_err(e)
        }
        "LOG" => {
            arity(1, 1)?;
            trans(a0.unwrap(), f32::ln, f64::ln, fl).map_err(e)
        }
        "SIN" => {
            arity(1, 1)?;
            trans(a0.unwrap(), f32::sin, f64::sin, fl).map_err(e)
        }
        "COS" => {
            arity(1, 1)?;
            trans(a0.unwrap(), f32::cos, f64::cos, fl).map_err(e)
        }
        "TAN" => {
            arity(1, 1)?;
            trans(a0.unwrap(), f32::tan, f64::tan, fl).map_err(e)
        }
        "ATN" => {
            arity(1, 1)?;
            trans(a0.unwrap(), f32::atan, f64::atan, fl).map_err(e)
        }
        "LEN" => {
            arity(1, 1)?;
            let s = need_str(a0.unwrap()).map_err(e)?;
            Ok(Val::Int(s.chars().count() as i16))
        }
        "LEFT$" => {
            arity(2, 2)?;
            let s = need_str(&args[0]).map_err(e)?;
            let n = to_count(&args[1]).map_err(|_| None)?;
            Ok(Val::Str(s.chars().take(n.min(100000) as usize).collect()))
        }
        "RIGHT$" => {
            arity(2, 2)?;
            let s = need_str(&args[0]).map_err(e)?;
            let n = to_count(&args[1]).map_err(|_| None)?;
            let len = s.chars().count() as u64;
            let skip = len.saturating_sub(n);
            Ok(Val::Str(s.chars().skip(skip as usize).collect()))
        }
        "MID$" => {
            arity(2, 3)?;
            let s = need_str(&args[0]).map_err(e)?;
            let pos = to_count(&args[1]).map_err(|_| None)?;
            if pos == 0 {
                return Err(None);
            }
            let len = if args.len() == 3 {
                let l = to_count(&args[2]).map_err(|_| None)?;
                if l > 65535 {
                    return Err(None);
                }
                l
            } else {
                u64::MAX
            };
            Ok(Val::Str(s.chars().skip((pos - 1).min(100000) as usize).take(len.min(100000) as usize).collect()))
        }
        "INSTR" => {
            arity(2, 3)?;
            let (start, x, y) = if args.len() == 3 {
                let st = match &args[0] {
                    Val::Str(_) => return Err(e(BErr::TypeMismatch)),
                    v => to_int(v).map_err(|_| None)?,
                };
                (st as i64, &args[1], &args[2])
            } else {
                (1, &args[0], &args[1])
            };
            let x: Vec<char> = need_str(x).map_err(e)?.chars().collect();
            let y: Vec<char> = need_str(y).map_err(e)?.chars().collect();
            if start == 0 {
                return Err(None);
            }
            if start < 0 {
                // the manual does not say; flagged so that callers can skip the comparison
                fl.fuzzy_eq = true;
                return Ok(Val::Int(0));
            }
            let start = start as usize;
            if start > x.len() {
                if y.is_empty() {
                    fl.fuzzy_eq = true; // "Returns I or 1 if Y$ = \"\"" vs "0 if not found": open
                }
                return Ok(Val::Int(0));
            }
            let mut i = start - 1;
            while i + y.len() <= x.len() {
                if x[i..i + y.len()] == y[..] {
                    return Ok(Val::Int((i + 1) as i16));
                }
                i += 1;
            }
            Ok(Val::Int(0))
        }
        "ASC" => {
            arity(1, 1)?;
            let s = need_str(a0.unwrap()).map_err(e)?;
            match s.chars().next() {
                None => Err(e(BErr::IllegalFunctionCall)),
                Some(c) => {
                    let n = c as u32;
                    Ok(if n <= 32767 { Val::Int(n as i16) } else { Val::Sng(n as f32) })
                }
            }
        }
        "CHR$" => {
            arity(1, 1)?;
            let n = to_count(a0.unwrap()).map_err(|x| if x == BErr::TypeMismatch { e(x) } else { None })?;
            if n > 0x10FFFF {
                return Err(None);
            }
            match char::from_u32(n as u32) {
                Some(c) => Ok(Val::Str(c.to_string())),
                None => Err(None),
            }
        }
        "STRING$" => {
            arity(2, 2)?;
            let n = to_count(&args[0]).map_err(|x| if x == BErr::TypeMismatch { e(x) } else { None })?;
            if n > 255 {
                return Err(None);
            }
            let c = match &args[1] {
                Val::Str(s) => match s.chars().next() {
                    Some(c) => c,
                    None => return Err(e(BErr::IllegalFunctionCall)),
                },
                v => {
                    let k = to_count(v).map_err(|_| None)?;
                    if k > 0x10FFFF {
                        return Err(None);
                    }
                    match char::from_u32(k as u32) {
                        Some(c) => c,
                        None => return Err(None),
                    }
                }
            };
            Ok(Val::Str(std::iter::repeat(c).take(n as usize).collect()))
        }
        "SPC" => {
            arity(1, 1)?;
            let n = to_count(a0.unwrap()).map_err(|x| if x == BErr::TypeMismatch { e(x) } else { None })?;
            if n > 255 {
                return Err(None);
            }
            Ok(Val::Str(" ".repeat(n as usize)))
        }
        "TAB" => {
            arity(1, 1)?;
            let n = to_int(a0.unwrap()).map_err(|x| if x == BErr::TypeMismatch { e(x) } else { None })? as i64;
            if !(-255..=255).contains(&n) {
                return Err(None);
            }
            let pad = if n < 0 {
                let z = (-n) as usize;
                z - (print_col % z)
            } else if (n as usize) > print_col {
                n as usize - print_col
            } else {
                0
            };
            Ok(Val::Str(" ".repeat(pad)))
        }
        "POS" => {
            arity(0, 1)?;
            if print_col > 32767 {
                return Err(None);
            }
            Ok(Val::Int(print_col as i16))
        }
        "STR$" => {
            arity(1, 1)?;
            need_num(a0.unwrap()).map_err(e)?;
            let s = fmt_num(a0.unwrap());
            Ok(Val::Str(s.trim_end().to_string()))
        }
        "VAL" => {
            arity(1, 1)?;
            let s = need_str(a0.unwrap()).map_err(e)?;
            Ok(val_of(s, fl))
        }
        "HEX$" | "OCT$" => {
            arity(1, 1)?;
            let n = to_int(a0.unwrap()).map_err(|x| if x == BErr::TypeMismatch { e(x) } else { None })?;
            let u = n as u16;
            Ok(Val::Str(if name == "HEX$" { format!("{:X}", u) } else { format!("{:o}", u) }))
        }
        _ => Err(e(BErr::Syntax)),
    }
}

// ------------------------------------------------------------------ text -> number

/// Longest prefix of `s` (after trimming blanks) that is a number in one of the documented
/// spellings; 0 when there is none.
pub fn val_of(s: &str, fl: &mut Flags) -> Val {
    let t = s.trim();
    let up = t.to_ascii_uppercase();
    if up.starts_with("INF") || up.starts_with("NAN") || up.starts_with("+INF") || up.starts_with("-INF") || up.starts_with("+NAN") || up.starts_with("-NAN") {
        fl.fuzzy_eq = true; // not documented
    }
    let chars: Vec<char> = t.chars().collect();
    let mut best: Option<Val> = None;
    let mut prefix = String::new();
    for c in chars {
        prefix.push(c);
        if let Some(v) = parse_number(&prefix) {
            best = Some(v);
        }
    }
    best.unwrap_or(Val::Int(0))
}

/// A complete numeric text (INPUT field, VAL candidate): decimal with optional exponent
/// (E e D d) and optional type suffix, or & / &H forms. Result: Double, or Integer for & forms.
pub fn parse_number(s: &str) -> Option<Val> {
    if let Some(r) = s.strip_prefix('&') {
        let (digits, radix) = if r.starts_with('H') || r.starts_with('h') { (&r[1..], 16) } else { (r, 8) };
        if digits.is_empty() || digits.starts_with('+') || digits.starts_with('-') {
            return None;
        }
        return i16::from_str_radix(digits, radix).ok().map(Val::Int);
    }
    let mut body = s.to_string();
    if body.ends_with('!') || body.ends_with('#') || body.ends_with('%') {
        body.pop();
    }
    let c: Vec<char> = body.chars().collect();
    let mut i = 0;
    if i < c.len() && (c[i] == '+' || c[i] == '-') {
        i += 1;
    }
    let mut nd = 0;
    while i < c.len() && c[i].is_ascii_digit() {
        i += 1;
        nd += 1;
    }
    if i < c.len() && c[i] == '.' {
        i += 1;
        while i < c.len() && c[i].is_ascii_digit() {
            i += 1;
            nd += 1;
        }
    }
    if nd == 0 {
        return None;
    }
    if i < c.len() && matches!(c[i], 'E' | 'e' | 'D' | 'd') {
        i += 1;
        if i < c.len() && (c[i] == '+' || c[i] == '-') {
            i += 1;
        }
        let mut ne = 0;
        while i < c.len() && c[i].is_ascii_digit() {
            i += 1;
            ne += 1;
        }
        if ne == 0 {
            return None;
        }
    }
    if i != c.len() {
        return None;
    }
    let norm: String = body.chars().map(|ch| if ch == 'D' || ch == 'd' { 'E' } else { ch }).collect();
    norm.parse::<f64>().ok().map(Val::Dbl)
}

// ------------------------------------------------------------------ literals (chapter 1 rules)

/// Type and value of a numeric literal as written in source. None = not a literal the manual
/// defines (the generators never produce those).
pub fn literal(text: &str) -> Option<Val> {
    let up = text.to_ascii_uppercase();
    if let Some(r) = up.strip_prefix("&H") {
        return i16::from_str_radix(r, 16).ok().map(Val::Int);
    }
    if let Some(r) = up.strip_prefix('&') {
        return i16::from_str_radix(r, 8).ok().map(Val::Int);
    }
    let (body, suffix) = match up.chars().last() {
        Some(c @ ('!' | '#' | '%')) => (&up[..up.len() - 1], Some(c)),
        _ => (&up[..], None),
    };
    let norm = body.replace('D', "E");
    let has_e = body.contains('E');
    let has_d = body.contains('D');
    let mantissa = body.split(|c| c == 'E' || c == 'D').next().unwrap_or("");
    let digits = mantissa.chars().filter(|c| c.is_ascii_digit()).count();
    let has_dot = mantissa.contains('.');
    match suffix {
        Some('%') => return norm.parse::<i16>().ok().map(Val::Int),
        Some('!') => return norm.parse::<f32>().ok().map(Val::Sng),
        Some('#') => return norm.parse::<f64>().ok().map(Val::Dbl),
        _ => {}
    }
    if has_d {
        return norm.parse::<f64>().ok().map(Val::Dbl);
    }
    if has_e {
        if digits > 7 {
            return None; // E says Single, more than 7 digits says Double: not generated
        }
        return norm.parse::<f32>().ok().map(Val::Sng);
    }
    if digits > 7 {
        return norm.parse::<f64>().ok().map(Val::Dbl);
    }
    if has_dot {
        return norm.parse::<f32>().ok().map(Val::Sng);
    }
    if let Ok(n) = norm.parse::<i32>() {
        if (-32767..=32767).contains(&n) {
            return Some(Val::Int(n as i16));
        }
    }
    norm.parse::<f32>().ok().map(Val::Sng)
}

// ------------------------------------------------------------------ number formatting

/// Text PRINT shows for a number: blank or minus, shortest round-trip decimal, blank.
/// The switch to exponent notation (more than 9 / 17 digits) mirrors the implementation's
/// notation choice; C11 judges printed numbers by round-trip and minimality instead.
pub fn fmt_num(v: &Val) -> String {
    let body = match v {
        Val::Int(n) => format!("{}", n),
        Val::Sng(x) => {
            let s = format!("{}", x);
            if s.chars().filter(|c| c.is_ascii_digit()).count() > 9 {
                format!("{:E}", x)
            } else {
                s
            }
        }
        Val::Dbl(x) => {
            let s = format!("{}", x);
            if s.chars().filter(|c| c.is_ascii_digit()).count() > 17 {
                format!("{:E}", x)
            } else {
                s
            }
        }
        Val::Str(s) => return s.clone(),
    };
    if body.starts_with('-') {
        format!("{} ", body)
    } else {
        format!(" {} ", body)
    }
}

/// Source text of a literal that evaluates exactly to `v` with exactly `v`'s type.
pub fn src_of(v: &Val) -> String {
    match v {
        Val::Int(n) => {
            if *n == -32768 {
                "(-32767-1)".into()
            } else if *n < 0 {
                format!("(-{}%)", -(*n as i32))
            } else {
                format!("{}%", n)
            }
        }
        Val::Sng(x) => {
            if x.is_nan() {
                "(1E38!*10-1E38!*10)".into()
            } else if x.is_infinite() {
                if *x > 0.0 {
                    "(1E38!*10)".into()
                } else {
                    "(-1E38!*10)".into()
                }
            } else if x.is_sign_negative() {
                format!("(-{}!)", -x)
            } else {
                format!("{}!", x)
            }
        }
        Val::Dbl(x) => {
            if x.is_nan() {
                "(1D308*10-1D308*10)".into()
            } else if x.is_infinite() {
                if *x > 0.0 {
                    "(1D308*10)".into()
                } else {
                    "(-1D308*10)".into()
                }
            } else if x.is_sign_negative() {
                format!("(-{}#)", -x)
            } else {
                format!("{}#", x)
            }
        }
        Val::Str(s) => str_src(s),
    }
}

/// Source expression for a string value (quotes cannot be escaped: CHR$(34) is spliced in).
pub fn str_src(s: &str) -> String {
    if !s.contains('"') && !s.contains('\n') && !s.contains('\r') {
        return format!("\"{}\"", s);
    }
    let mut parts: Vec<String> = vec![];
    let mut cur = String::new();
    for c in s.chars() {
        if c == '"' || c == '\n' || c == '\r' {
            if !cur.is_empty() {
                parts.push(format!("\"{}\"", cur));
                cur.clear();
            }
            parts.push(format!("CHR$({})", c as u32));
        } else {
            cur.push(c);
        }
    }
    if !cur.is_empty() {
        parts.push(format!("\"{}\"", cur));
    }
    if parts.len() == 1 {
        parts.pop().unwrap()
    } else {
        format!("({})", parts.join("+"))
    }
}

/// ulp distance for tolerant comparison of transcendental results.
pub fn ulps32(a: f32, b: f32) -> u64 {
    if a.is_nan() && b.is_nan() {
        return 0;
    }
    if a == b {
        return 0;
    }
    if a.is_nan() || b.is_nan() || a.is_infinite() || b.is_infinite() {
        return u64::MAX;
    }
    let key = |x: f32| {
        let b = x.to_bits() as i64;
        if b & 0x8000_0000 != 0 {
            -(b & 0x7fff_ffff)
        } else {
            b
        }
    };
    (key(a) - key(b)).unsigned_abs()
}

pub fn ulps64(a: f64, b: f64) -> u64 {
    if a.is_nan() && b.is_nan() {
        return 0;
    }
    if a == b {
        return 0;
    }
    if a.is_nan() || b.is_nan() || a.is_infinite() || b.is_infinite() {
        return u64::MAX;
    }
    let key = |x: f64| {
        let b = x.to_bits() as i128;
        if b & 0x8000_0000_0000_0000 != 0 {
            -(b & 0x7fff_ffff_ffff_ffff)
        } else {
            b
        }
    };
    (key(a) - key(b)).unsigned_abs() as u64
}
