//! The only source of choices in generated cases: a byte tape.
//!
//! The tape is produced by proptest (`vec(any::<u8>(), ..)`), by an exhaustive enumerator or
//! by libFuzzer. All decoders map bytes *monotonically* (smaller byte = simpler choice) and an
//! exhausted tape yields the simplest value, so proptest's generic shrinking of the byte
//! vector (drop chunks, lower bytes) is structural shrinking of programs and histories.

pub struct Tape<'a> {
    data: &'a [u8],
    pos: usize,
}

impl<'a> Tape<'a> {
    pub fn new(data: &'a [u8]) -> Tape<'a> {
        Tape { data, pos: 0 }
    }
    pub fn byte(&mut self) -> u8 {
        if self.pos < self.data.len() {
            self.pos += 1;
            self.data[self.pos - 1]
        } else {
            0
        }
    }
    pub fn exhausted(&self) -> bool {
        self.pos >= self.data.len()
    }
    pub fn used(&self) -> usize {
        self.pos
    }
    /// Uniform-ish value in 0..n (n >= 1), monotone in the bytes consumed.
    pub fn below(&mut self, n: usize) -> usize {
        if n <= 1 {
            return 0;
        }
        if n <= 256 {
            (self.byte() as usize * n) >> 8
        } else if n <= 65536 {
            let v = ((self.byte() as usize) << 8) | self.byte() as usize;
            (v * n) >> 16
        } else {
            let mut v: u64 = 0;
            for _ in 0..4 {
                v = (v << 8) | self.byte() as u64;
            }
            ((v as u128 * n as u128) >> 32) as usize
        }
    }
    /// Inclusive integer range.
    pub fn range(&mut self, lo: i64, hi: i64) -> i64 {
        debug_assert!(lo <= hi);
        lo + self.below((hi - lo + 1) as usize) as i64
    }
    /// True with probability num/den; false when the tape is exhausted.
    pub fn chance(&mut self, num: usize, den: usize) -> bool {
        let v = self.below(den);
        v + num >= den
    }
    pub fn pick<'t, T>(&mut self, xs: &'t [T]) -> &'t T {
        &xs[self.below(xs.len())]
    }
    pub fn pick_str(&mut self, xs: &[&'static str]) -> &'static str {
        xs[self.below(xs.len())]
    }
    /// Index into a weight table (simplest first).
    pub fn weighted(&mut self, w: &[u32]) -> usize {
        let total: u32 = w.iter().sum();
        let mut v = self.below(total as usize) as u32;
        for (i, x) in w.iter().enumerate() {
            if v < *x {
                return i;
            }
            v -= *x;
        }
        w.len() - 1
    }
    pub fn u16(&mut self) -> u16 {
        ((self.byte() as u16) << 8) | self.byte() as u16
    }
    pub fn u32(&mut self) -> u32 {
        ((self.u16() as u32) << 16) | self.u16() as u32
    }
    pub fn u64(&mut self) -> u64 {
        ((self.u32() as u64) << 32) | self.u32() as u64
    }
}

pub fn hex(data: &[u8]) -> String {
    let mut s = String::with_capacity(data.len() * 2);
    for b in data {
        s.push_str(&format!("{:02x}", b));
    }
    s
}

pub fn unhex(s: &str) -> Vec<u8> {
    let b = s.as_bytes();
    let mut v = Vec::new();
    let mut i = 0;
    while i + 1 < b.len() {
        if let Ok(x) = u8::from_str_radix(&s[i..i + 2], 16) {
            v.push(x);
        }
        i += 2;
    }
    v
}

/// Small deterministic PRNG (splitmix64) used only to derive per-thread seeds from VERIF_SEED
/// and to expand enumerator-side "random" pools deterministically. Never used inside a
/// property body for choices (those come from the tape).
pub fn splitmix(x: &mut u64) -> u64 {
    *x = x.wrapping_add(0x9E3779B97F4A7C15);
    let mut z = *x;
    z = (z ^ (z >> 30)).wrapping_mul(0xBF58476D1CE4E5B9);
    z = (z ^ (z >> 27)).wrapping_mul(0x94D049BB133111EB);
    z ^ (z >> 31)
}

pub fn hash_str(s: &str) -> u64 {
    // FNV-1a, deterministic across runs and platforms.
    let mut h: u64 = 0xcbf29ce484222325;
    for b in s.as_bytes() {
        h ^= *b as u64;
        h = h.wrapping_mul(0x100000001b3);
    }
    h
}
