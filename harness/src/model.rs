//! The reference interpreter: statement-by-statement execution of a harness-side program,
//! written from the manual (DESIGN.md Appendix A). No compiler, no addresses: lines in
//! ascending order, one frame stack for FOR and GOSUB, WHILE/WEND paired by source position,
//! DATA collected in source order, user functions with local parameters.

use crate::bast::*;
use crate::drive::Ev;
use crate::expr::*;
use crate::sem::*;
use std::collections::{HashMap, VecDeque};

#[derive(Clone, Debug)]
enum Flat {
    S(Stmt),
    If { c: E, else_at: usize },
    Jump(usize),
}

fn flatten(stmts: &[Stmt], out: &mut Vec<Flat>) {
    for s in stmts {
        match s {
            Stmt::If { c, then_, else_, .. } => {
                let head = out.len();
                out.push(Flat::If { c: c.clone(), else_at: 0 });
                match then_ {
                    Arm::Line(n) => out.push(Flat::S(Stmt::Goto(*n))),
                    Arm::Stmts(v) => flatten(v, out),
                }
                // an ELSE with no code behind it leaves nothing to skip; what it holds (remarks,
                // DATA) still belongs to the program
                if let Some(Arm::Stmts(v)) = else_ {
                    if v.iter().all(|s| !has_code(s)) {
                        let at = out.len();
                        if let Flat::If { else_at, .. } = &mut out[head] {
                            *else_at = at;
                        }
                        flatten(v, out);
                        continue;
                    }
                }
                if let Some(e) = else_ {
                    let j = out.len();
                    out.push(Flat::Jump(0));
                    let at = out.len();
                    if let Flat::If { else_at, .. } = &mut out[head] {
                        *else_at = at;
                    }
                    match e {
                        Arm::Line(n) => out.push(Flat::S(Stmt::Goto(*n))),
                        Arm::Stmts(v) => flatten(v, out),
                    }
                    let end = out.len();
                    out[j] = Flat::Jump(end);
                } else {
                    let at = out.len();
                    if let Flat::If { else_at, .. } = &mut out[head] {
                        *else_at = at;
                    }
                }
            }
            other => out.push(Flat::S(other.clone())),
        }
    }
}

#[derive(Clone, Copy, Debug, PartialEq, Eq, Hash)]
pub struct Pos {
    /// None = the direct line
    line: Option<usize>,
    idx: usize,
}

#[derive(Clone, Debug)]
enum Frame {
    For { var: String, to: Val, step: Val, body: Pos },
    Gosub { ret: Pos },
}

#[derive(Clone, Debug)]
struct Arr {
    dims: Vec<i16>,
    elems: HashMap<Vec<i16>, Val>,
}

#[derive(Clone, Debug)]
struct FnDef {
    params: Vec<Name>,
    body: E,
    line: Option<u16>,
}

#[derive(Clone, Debug, PartialEq)]
pub enum Halt {
    /// the direct line (and whatever it started) finished
    Done,
    Budget,
}

#[derive(Default, Clone, Debug)]
pub struct Hits {
    pub lines_executed: usize,
    pub transfers: usize,
    pub early_loop_exit: bool,
    pub next_discarded_inner: bool,
    pub return_discarded_for: bool,
    pub on_out_of_range: bool,
    pub else_taken: bool,
    pub error_end: Option<String>,
    pub fn_calls: usize,
    pub fn_nested: bool,
    pub inputs: usize,
    pub redo: usize,
    pub reads: usize,
    pub restores: usize,
    pub while_iter: usize,
    pub for_iter: usize,
    pub gosubs: usize,
    pub max_frames: usize,
    pub stop_cont: usize,
    pub starved: bool,
}

pub struct Machine {
    lines: Vec<Line>,
    flat: Vec<Vec<Flat>>,
    index: HashMap<u16, usize>,
    while_of: HashMap<Pos, Pos>,
    wend_of: HashMap<Pos, Pos>,
    data: Vec<(usize, String)>,
    data_ptr: usize,
    vars: HashMap<String, Val>,
    arrays: HashMap<String, Arr>,
    deftypes: [Ty; 26],
    frames: Vec<Frame>,
    fns: HashMap<String, FnDef>,
    scopes: Vec<HashMap<String, Val>>,
    pub out: Vec<Ev>,
    pub col: usize,
    tron: bool,
    last_traced: Option<u16>,
    pub replies: VecDeque<String>,
    pub steps: usize,
    pub budget: usize,
    cont: Option<Pos>,
    cont_open: bool,
    direct: Vec<Flat>,
    pub flags: Flags,
    pub hits: Hits,
    /// set when the model met something outside the well-defined fragment
    pub undefined: Option<&'static str>,
    cur_line: Option<u16>,
    /// undecorated variables / array elements of letters outside a DEFtype's range whose fate
    /// the manual leaves open: (name, subscripts)
    pub uncertain: Vec<(String, Option<Vec<i16>>)>,
    /// DEF line of the innermost user function in which the pending error was raised
    fn_error_line: Option<u16>,
}

enum Ctl {
    Next,
    Go(Pos),
    End,
    Stop,
    /// leave the current direct line without touching anything else (e.g. after RUN finished)
    Halt,
}

type Res<T> = Result<T, Fault>;

impl Machine {
    pub fn new(p: &Program) -> Machine {
        let mut m = Machine {
            lines: vec![],
            flat: vec![],
            index: HashMap::new(),
            while_of: HashMap::new(),
            wend_of: HashMap::new(),
            data: vec![],
            data_ptr: 0,
            vars: HashMap::new(),
            arrays: HashMap::new(),
            deftypes: [Ty::Sng; 26],
            frames: vec![],
            fns: HashMap::new(),
            scopes: vec![],
            out: vec![],
            col: 0,
            tron: false,
            last_traced: None,
            replies: VecDeque::new(),
            steps: 0,
            budget: 200_000,
            cont: None,
            cont_open: false,
            direct: vec![],
            flags: Flags::default(),
            hits: Hits::default(),
            undefined: None,
            cur_line: None,
            uncertain: vec![],
            fn_error_line: None,
        };
        m.load(p);
        m
    }

    /// Replace the stored program (the listing changed): compile-time tables are rebuilt, the
    /// continuation point is dropped.
    pub fn load(&mut self, p: &Program) {
        let mut lines = p.lines.clone();
        lines.sort_by_key(|l| l.num);
        self.lines = lines;
        self.flat.clear();
        self.index.clear();
        self.while_of.clear();
        self.wend_of.clear();
        self.data.clear();
        let mut open: Vec<Pos> = vec![];
        for (li, l) in self.lines.iter().enumerate() {
            self.index.insert(l.num, li);
            let mut f = vec![];
            flatten(&l.stmts, &mut f);
            for (i, x) in f.iter().enumerate() {
                match x {
                    Flat::S(Stmt::While(_)) => open.push(Pos { line: Some(li), idx: i }),
                    Flat::S(Stmt::Wend) => {
                        if let Some(w) = open.pop() {
                            let e = Pos { line: Some(li), idx: i };
                            self.while_of.insert(e, w);
                            self.wend_of.insert(w, e);
                        } else {
                            self.undefined = Some("WEND without WHILE");
                        }
                    }
                    Flat::S(Stmt::Data(items)) => {
                        for d in items {
                            self.data.push((li, d.clone()));
                        }
                    }
                    _ => {}
                }
            }
            self.flat.push(f);
        }
        if !open.is_empty() {
            self.undefined = Some("WHILE without WEND");
        }
        self.cont = None;
    }

    fn emit(&mut self, s: &str) {
        if s.is_empty() {
            return;
        }
        for ch in s.chars() {
            if ch == '\n' {
                self.col = 0
            } else {
                self.col += 1
            }
        }
        if let Some(Ev::Out(prev)) = self.out.last_mut() {
            prev.push_str(s);
        } else {
            self.out.push(Ev::Out(s.to_string()));
        }
    }

    fn fresh_line(&mut self) {
        if self.col > 0 {
            self.emit("\n");
        }
    }

    fn ty_of(&self, n: &Name) -> Ty {
        n.ty(&self.deftypes)
    }

    fn get_var(&self, n: &Name) -> Val {
        let key = n.text();
        for sc in self.scopes.iter().rev().take(1) {
            if let Some(v) = sc.get(&key) {
                return v.clone();
            }
        }
        match self.vars.get(&key) {
            Some(v) => v.clone(),
            None => Val::default_of(self.ty_of(n)),
        }
    }

    fn set_var(&mut self, n: &Name, v: &Val) -> Res<()> {
        let t = self.ty_of(n);
        let cv = stored(&convert(t, v)?);
        self.vars.insert(n.text(), cv);
        Ok(())
    }

    fn subs(&mut self, n: &Name, subs: &[Val], create: bool) -> Res<Vec<i16>> {
        let mut idx = vec![];
        for s in subs {
            let i = match to_int(s) {
                Ok(i) => i,
                Err(BErr::TypeMismatch) => return Err(Fault::Code(BErr::TypeMismatch)),
                Err(_) => return Err(Fault::Any), // beyond +-32767: OVERFLOW or SUBSCRIPT, manual silent
            };
            if i < 0 {
                return Err(Fault::Code(BErr::Subscript));
            }
            idx.push(i);
        }
        let key = n.text();
        if !self.arrays.contains_key(&key) {
            if !create {
                return Err(Fault::Any);
            }
            self.arrays.insert(key.clone(), Arr { dims: vec![10; idx.len()], elems: HashMap::new() });
        }
        let a = self.arrays.get(&key).unwrap();
        if a.dims.len() != idx.len() {
            return Err(Fault::Code(BErr::Subscript));
        }
        for (i, d) in idx.iter().zip(a.dims.iter()) {
            if i > d {
                return Err(Fault::Code(BErr::Subscript));
            }
        }
        Ok(idx)
    }

    fn set_lval(&mut self, lv: &Lval, v: &Val) -> Res<()> {
        match lv {
            Lval::Var(n) => self.set_var(n, v),
            Lval::Elem(n, subs) => {
                let mut sv = vec![];
                for s in subs {
                    sv.push(self.ev(s)?);
                }
                let idx = self.subs(n, &sv, true)?;
                let t = self.ty_of(n);
                let cv = stored(&convert(t, v)?);
                self.arrays.get_mut(&n.text()).unwrap().elems.insert(idx, cv);
                Ok(())
            }
        }
    }

    fn ev(&mut self, e: &E) -> Res<Val> {
        let mut fl = std::mem::take(&mut self.flags);
        let r = eval(e, self, &mut fl);
        self.flags.fuzzy_eq |= fl.fuzzy_eq;
        self.flags.approx |= fl.approx;
        r
    }

    /// Resolve an uncertain variable by observation: it was dropped (true) or kept.
    pub fn resolve_uncertain(&mut self, name: &str, idx: &Option<Vec<i16>>, dropped: bool) {
        if dropped {
            match idx {
                None => {
                    self.vars.remove(name);
                }
                Some(i) => {
                    if let Some(a) = self.arrays.get_mut(name) {
                        a.elems.remove(i);
                    }
                }
            }
        }
        self.uncertain.retain(|(n, i)| !(n == name && i == idx));
    }

    /// Text PRINT would show for a stored value (kept) and for the default (dropped).
    pub fn uncertain_texts(&self, name: &str, idx: &Option<Vec<i16>>) -> (String, String) {
        let n = Name::new(name);
        let def = Val::default_of(self.ty_of(&n));
        let kept = match idx {
            None => self.vars.get(name).cloned().unwrap_or_else(|| def.clone()),
            Some(i) => self.arrays.get(name).and_then(|a| a.elems.get(i).cloned()).unwrap_or_else(|| def.clone()),
        };
        let f = |v: &Val| match v {
            Val::Str(s) => s.clone(),
            other => fmt_num(other),
        };
        (f(&kept), f(&def))
    }

    pub fn final_value(&mut self, e: &E) -> Res<Val> {
        self.ev(e)
    }

    // ------------------------------------------------------------ running

    fn norm(&self, mut p: Pos) -> Option<Pos> {
        // advance past the end of lines to the next line; None = ran off the program / direct end
        loop {
            match p.line {
                None => {
                    return if p.idx < self.direct.len() { Some(p) } else { None };
                }
                Some(li) => {
                    if li >= self.flat.len() {
                        return None;
                    }
                    if p.idx < self.flat[li].len() {
                        return Some(p);
                    }
                    p = Pos { line: Some(li + 1), idx: 0 };
                }
            }
        }
    }

    /// Where CONT resumes after END/STOP at the statement before `next`: the next statement,
    /// provided a later line exists or code remains on the current line; otherwise there is
    /// nothing to continue.
    fn next_coded(&self, next: Pos) -> Option<Pos> {
        let p = self.norm(next)?;
        if p.line != next.line {
            return Some(p);
        }
        if let Some(li) = p.line {
            if li + 1 < self.flat.len() {
                return Some(p);
            }
        }
        let mut q = p;
        loop {
            let coded = match self.fetch(q) {
                Flat::S(s) => has_code(&s),
                _ => true,
            };
            if coded {
                return Some(p);
            }
            q = Pos { line: q.line, idx: q.idx + 1 };
            let n = self.norm(q)?;
            if n.line != p.line {
                return Some(p);
            }
            q = n;
        }
    }

    fn line_pos(&self, n: u16) -> Res<Pos> {
        match self.index.get(&n) {
            Some(li) => Ok(Pos { line: Some(*li), idx: 0 }),
            None => Err(Fault::Code(BErr::UndefinedLine)),
        }
    }

    fn fetch(&self, p: Pos) -> Flat {
        match p.line {
            None => self.direct[p.idx].clone(),
            Some(li) => self.flat[li][p.idx].clone(),
        }
    }

    fn line_no(&self, p: Pos) -> Option<u16> {
        p.line.map(|li| self.lines[li].num)
    }

    fn report(&mut self, f: Fault, line: Option<u16>) {
        self.fresh_line();
        let code = match f {
            Fault::Code(c) => c.text().to_string(),
            Fault::Any => "?<ANY>".to_string(),
        };
        // an error raised while a user function's body is evaluated may be attributed to the
        // calling line or to the DEF line (the statement says "failing statement")
        let text = match (line, self.fn_error_line.take()) {
            (Some(n), Some(d)) if d != n => format!("{} IN {}|{}", code, n, d),
            (None, Some(d)) => format!("{} IN |{}", code, d),
            (Some(n), _) => format!("{} IN {}", code, n),
            (None, None) => code,
        };
        self.hits.error_end = Some(text.clone());
        self.out.push(Ev::Errs(vec![text]));
    }

    /// Enter a direct line (a statement list) and run until the machine stops.
    pub fn direct_line(&mut self, stmts: &[Stmt]) -> Halt {
        self.direct.clear();
        let mut f = vec![];
        flatten(stmts, &mut f);
        // WHILE/WEND of the direct line pair among themselves
        let mut open = vec![];
        self.while_of.retain(|k, _| k.line.is_some());
        self.wend_of.retain(|k, _| k.line.is_some());
        for (i, x) in f.iter().enumerate() {
            match x {
                Flat::S(Stmt::While(_)) => open.push(Pos { line: None, idx: i }),
                Flat::S(Stmt::Wend) => {
                    if let Some(w) = open.pop() {
                        let e = Pos { line: None, idx: i };
                        self.while_of.insert(e, w);
                        self.wend_of.insert(w, e);
                    } else {
                        self.undefined = Some("WEND without WHILE (direct)");
                    }
                }
                Flat::S(Stmt::Data(_)) => self.undefined = Some("DATA in a direct line"),
                _ => {}
            }
        }
        if !open.is_empty() {
            self.undefined = Some("WHILE without WEND (direct)");
        }
        self.direct = f;
        self.last_traced = None;
        let h = self.run_from(Pos { line: None, idx: 0 });
        // the prompt: the cursor returns to the first column
        self.fresh_line();
        h
    }

    fn run_from(&mut self, start: Pos) -> Halt {
        let mut pos = match self.norm(start) {
            Some(p) => p,
            None => return Halt::Done,
        };
        loop {
            self.steps += 1;
            if self.steps > self.budget {
                return Halt::Budget;
            }
            let item = self.fetch(pos);
            let here = self.line_no(pos);
            self.cur_line = here;
            // trace
            let coded = match &item {
                Flat::S(s) => has_code(s),
                _ => true,
            };
            if self.tron && coded {
                match here {
                    Some(n) => {
                        if self.last_traced != Some(n) {
                            self.last_traced = Some(n);
                            self.emit(&format!("[{}]", n));
                        }
                    }
                    // direct code is not a numbered line: coming back into a numbered line from
                    // it is an entry, also into the line that was traced last
                    None => self.last_traced = None,
                }
            }
            if coded && pos.idx == 0 && pos.line.is_some() {
                self.hits.lines_executed += 1;
            }
            let next = Pos { line: pos.line, idx: pos.idx + 1 };
            let r: Res<Ctl> = match &item {
                Flat::If { c, else_at } => match self.ev(c) {
                    Err(f) => Err(f),
                    Ok(Val::Str(_)) => Err(Fault::Code(BErr::TypeMismatch)),
                    Ok(v) => {
                        let truth = v.as_f64().map(|x| x != 0.0).unwrap_or(false);
                        if truth {
                            Ok(Ctl::Next)
                        } else {
                            self.hits.else_taken = true;
                            self.hits.transfers += 1;
                            Ok(Ctl::Go(Pos { line: pos.line, idx: *else_at }))
                        }
                    }
                },
                Flat::Jump(to) => Ok(Ctl::Go(Pos { line: pos.line, idx: *to })),
                Flat::S(s) => self.exec(s, pos, next),
            };
            let ctl = match r {
                Ok(c) => c,
                Err(f) => {
                    if pos.line.is_some() {
                        self.cont = None; // CONT after an error is not part of the fragment
                    } else {
                        // an error in a direct line abandons its loops and calls
                        self.frames.clear();
                    }
                    self.report(f, here);
                    return Halt::Done;
                }
            };
            let target = match ctl {
                Ctl::Next => next,
                Ctl::Go(p) => p,
                Ctl::Halt => return Halt::Done,
                Ctl::End => {
                    if pos.line.is_some() {
                        self.cont = self.next_coded(next);
                        // an END inside an IF arm that closes the program: undocumented, as for STOP
                        self.cont_open = self.cont.is_none() && pos.idx > 0;
                    }
                    return Halt::Done;
                }
                Ctl::Stop => {
                    if pos.line.is_some() {
                        self.cont = self.next_coded(next);
                        // a STOP that is the very last statement: whether CONT then ends the
                        // program silently or cannot continue is not documented
                        self.cont_open = self.cont.is_none();
                    }
                    self.fresh_line();
                    let text = match here {
                        Some(n) => format!("?BREAK IN {}", n),
                        None => "?BREAK".to_string(),
                    };
                    self.out.push(Ev::Errs(vec![text]));
                    return Halt::Done;
                }
            };
            // a direct line that falls into the program does not exist: leaving the direct list
            // at its end stops; running off the program's end stops
            match self.norm(target) {
                Some(p) => pos = p,
                None => {
                    if target.line.is_some() {
                        // the program ran off its end: a normal end that cannot be continued
                        self.cont = None;
                        // the implicit END belongs to the last line
                        if self.tron {
                            if let Some(last) = self.lines.last().map(|l| l.num) {
                                if self.last_traced != Some(last) {
                                    self.last_traced = Some(last);
                                    self.emit(&format!("[{}]", last));
                                }
                            }
                        }
                    }
                    return Halt::Done;
                }
            }
        }
    }

    fn clear(&mut self) {
        self.vars.clear();
        self.arrays.clear();
        self.deftypes = [Ty::Sng; 26];
        self.fns.clear();
        self.frames.clear();
        self.data_ptr = 0;
        self.cont = None;
    }

    fn exec(&mut self, s: &Stmt, pos: Pos, next: Pos) -> Res<Ctl> {
        use Stmt::*;
        let in_program = pos.line.is_some();
        match s {
            Rem { .. } | Data(_) | Empty => Ok(Ctl::Next),
            Let { lv, e, .. } => {
                let v = self.ev(e)?;
                self.set_lval(lv, &v)?;
                Ok(Ctl::Next)
            }
            Print(items) => {
                let mut newline = true;
                for it in items {
                    match it {
                        PItem::Semi => newline = false,
                        PItem::Comma => {
                            newline = false;
                            let pad = 14 - (self.col % 14);
                            self.emit(&" ".repeat(pad));
                        }
                        PItem::Expr(e) => {
                            newline = true;
                            let v = self.ev(e)?;
                            let text = match &v {
                                Val::Str(s) => s.clone(),
                                other => fmt_num(other),
                            };
                            self.emit(&text);
                        }
                    }
                }
                if newline {
                    self.emit("\n");
                }
                Ok(Ctl::Next)
            }
            If { .. } => {
                self.undefined = Some("IF reached exec");
                Ok(Ctl::Next)
            }
            For { v, from, to, step } => {
                let x = self.ev(from)?;
                self.set_var(v, &x)?;
                let y = self.ev(to)?;
                let z = match step {
                    Some(e) => self.ev(e)?,
                    None => Val::Int(1),
                };
                if !y.is_num() || !z.is_num() {
                    self.undefined = Some("FOR with a string bound");
                }
                self.frames.push(Frame::For { var: v.text(), to: y, step: z, body: next });
                self.hits.max_frames = self.hits.max_frames.max(self.frames.len());
                Ok(Ctl::Next)
            }
            Next(names) => {
                let list: Vec<Option<String>> = if names.is_empty() { vec![None] } else { names.iter().map(|n| Some(n.text())).collect() };
                for want in list {
                    loop {
                        let (var, to, step, body) = match self.frames.last() {
                            Some(Frame::For { var, to, step, body }) => (var.clone(), to.clone(), step.clone(), *body),
                            _ => {
                                self.frames.pop();
                                return Err(Fault::Code(BErr::NextWithoutFor));
                            }
                        };
                        if let Some(w) = &want {
                            if *w != var {
                                self.frames.pop();
                                self.hits.next_discarded_inner = true;
                                continue;
                            }
                        }
                        self.frames.pop();
                        let name = Name::new(&var);
                        let cur = self.get_var(&name);
                        let mut fl = Flags::default();
                        let sum = binop(Bin::Add, &cur, &step, &mut fl)?;
                        self.set_var(&name, &sum)?;
                        let neg = step.as_f64().map(|x| x < 0.0).unwrap_or(false);
                        let done = if neg { binop(Bin::Lt, &sum, &to, &mut fl)? } else { binop(Bin::Lt, &to, &sum, &mut fl)? };
                        if sum.ty() != self.ty_of(&name) && sum.ty() != Ty::Int {
                            // the sum was narrowed on store; whether the test uses the sum or the stored
                            // value is not documented
                            let st = self.get_var(&name);
                            if st.as_f64() != sum.as_f64() {
                                self.flags.fuzzy_eq = true;
                            }
                        }
                        if done == Val::Int(0) {
                            self.frames.push(Frame::For { var, to, step, body });
                            self.hits.for_iter += 1;
                            self.hits.transfers += 1;
                            return Ok(Ctl::Go(body));
                        }
                        break;
                    }
                }
                Ok(Ctl::Next)
            }
            While(c) => {
                let v = self.ev(c)?;
                if let Val::Str(_) = v {
                    return Err(Fault::Code(BErr::TypeMismatch));
                }
                if v.as_f64().map(|x| x != 0.0).unwrap_or(false) {
                    self.hits.while_iter += 1;
                    Ok(Ctl::Next)
                } else {
                    match self.wend_of.get(&pos) {
                        Some(w) => {
                            self.hits.transfers += 1;
                            Ok(Ctl::Go(Pos { line: w.line, idx: w.idx + 1 }))
                        }
                        None => {
                            self.undefined = Some("unpaired WHILE");
                            Ok(Ctl::Halt)
                        }
                    }
                }
            }
            Wend => match self.while_of.get(&pos) {
                Some(w) => {
                    self.hits.transfers += 1;
                    Ok(Ctl::Go(*w))
                }
                None => {
                    self.undefined = Some("unpaired WEND");
                    Ok(Ctl::Halt)
                }
            },
            Goto(n) => {
                let p = self.line_pos(*n)?;
                self.hits.transfers += 1;
                if !in_program {
                    self.last_traced = None;
                }
                Ok(Ctl::Go(p))
            }
            Gosub(n) => {
                let p = self.line_pos(*n)?;
                self.frames.push(Frame::Gosub { ret: next });
                self.hits.max_frames = self.hits.max_frames.max(self.frames.len());
                self.hits.transfers += 1;
                self.hits.gosubs += 1;
                Ok(Ctl::Go(p))
            }
            Return => {
                let mut dropped_for = false;
                loop {
                    match self.frames.pop() {
                        None => return Err(Fault::Code(BErr::ReturnWithoutGosub)),
                        Some(Frame::For { .. }) => dropped_for = true,
                        Some(Frame::Gosub { ret }) => {
                            if dropped_for {
                                self.hits.return_discarded_for = true;
                            }
                            self.hits.transfers += 1;
                            return Ok(Ctl::Go(ret));
                        }
                    }
                }
            }
            On { sel, gosub, targets } => {
                let v = self.ev(sel)?;
                let k = to_int(&v)?;
                if k < 0 {
                    return Err(Fault::Code(BErr::IllegalFunctionCall));
                }
                if k == 0 || k as usize > targets.len() {
                    self.hits.on_out_of_range = true;
                    return Ok(Ctl::Next);
                }
                let p = self.line_pos(targets[k as usize - 1])?;
                if *gosub {
                    self.frames.push(Frame::Gosub { ret: next });
                    self.hits.max_frames = self.hits.max_frames.max(self.frames.len());
                    self.hits.gosubs += 1;
                }
                self.hits.transfers += 1;
                Ok(Ctl::Go(p))
            }
            End => Ok(Ctl::End),
            Stop => Ok(Ctl::Stop),
            Input { nocaps, prompt, targets } => {
                let ptext = format!("{}? ", prompt.clone().unwrap_or_default());
                loop {
                    self.steps += 1;
                    if self.steps > self.budget {
                        return Ok(Ctl::Halt);
                    }
                    self.out.push(Ev::Prompt(ptext.clone(), !*nocaps));
                    self.col = 0;
                    let reply = match self.replies.pop_front() {
                        Some(r) => r,
                        None => {
                            // the terminal interrupts a starved INPUT
                            self.hits.starved = true;
                            self.out.push(Ev::Break);
                            let text = match self.cur_line {
                                Some(n) => format!("?BREAK IN {}", n),
                                None => "?BREAK".to_string(),
                            };
                            self.out.push(Ev::Errs(vec![text]));
                            if in_program {
                                self.cont = Some(pos);
                            }
                            return Ok(Ctl::Halt);
                        }
                    };
                    self.out.push(Ev::Reply(reply.clone()));
                    self.hits.inputs += 1;
                    match self.accept_reply(&reply, targets) {
                        Ok(()) => break,
                        Err(()) => {
                            self.hits.redo += 1;
                            self.out.push(Ev::Errs(vec!["?REDO FROM START".into()]));
                        }
                    }
                }
                Ok(Ctl::Next)
            }
            Read(targets) => {
                for lv in targets {
                    if self.data_ptr >= self.data.len() {
                        return Err(Fault::Code(BErr::OutOfData));
                    }
                    let text = self.data[self.data_ptr].1.clone();
                    self.data_ptr += 1;
                    self.hits.reads += 1;
                    let v = data_value(&text).ok_or(Fault::Any)?;
                    self.set_lval(lv, &v)?;
                }
                Ok(Ctl::Next)
            }
            Restore(n) => {
                self.hits.restores += 1;
                match n {
                    None => self.data_ptr = 0,
                    Some(n) => {
                        let p = self.line_pos(*n)?;
                        let li = p.line.unwrap();
                        self.data_ptr = self.data.iter().position(|(l, _)| *l >= li).unwrap_or(self.data.len());
                    }
                }
                Ok(Ctl::Next)
            }
            Dim(arrs) => {
                for (n, dims) in arrs {
                    let mut d = vec![];
                    for e in dims {
                        let v = self.ev(e)?;
                        let i = match to_int(&v) {
                            Ok(i) => i,
                            Err(BErr::TypeMismatch) => return Err(Fault::Code(BErr::TypeMismatch)),
                            Err(_) => return Err(Fault::Any),
                        };
                        if i < 0 {
                            return Err(Fault::Any);
                        }
                        d.push(i);
                    }
                    if self.arrays.contains_key(&n.text()) {
                        return Err(Fault::Code(BErr::Redim));
                    }
                    self.arrays.insert(n.text(), Arr { dims: d, elems: HashMap::new() });
                }
                Ok(Ctl::Next)
            }
            Erase(ns) => {
                for n in ns {
                    if self.arrays.remove(&n.text()).is_none() {
                        return Err(Fault::Any);
                    }
                }
                Ok(Ctl::Next)
            }
            Swap(a, b) => {
                let va = self.ev(&a.as_expr())?;
                let vb = self.ev(&b.as_expr())?;
                if va.ty() != vb.ty() {
                    return Err(Fault::Code(BErr::TypeMismatch));
                }
                // the two variables are the ones the statement names when it starts: subscripts
                // are values by now, whatever the exchange does to the variables they mention
                let mut at: Vec<Option<_>> = vec![];
                for lv in [a, b] {
                    at.push(match lv {
                        Lval::Var(_) => None,
                        Lval::Elem(n, subs) => {
                            let mut sv = vec![];
                            for x in subs {
                                sv.push(self.ev(x)?);
                            }
                            Some(self.subs(n, &sv, true)?)
                        }
                    });
                }
                for (k, (lv, v)) in [(a, &vb), (b, &va)].into_iter().enumerate() {
                    match (lv, at[k].take()) {
                        (Lval::Elem(n, _), Some(idx)) => {
                            let t = self.ty_of(n);
                            let cv = stored(&convert(t, v)?);
                            self.arrays.get_mut(&n.text()).unwrap().elems.insert(idx, cv);
                        }
                        (lv, _) => self.set_lval(lv, v)?,
                    }
                }
                Ok(Ctl::Next)
            }
            MidSet { lv, pos: p, len, e } => {
                let orig = self.ev(&lv.as_expr())?;
                let ins = self.ev(e)?;
                let l = match len {
                    Some(x) => Some(self.ev(x)?),
                    None => None,
                };
                let pv = self.ev(p)?;
                let pnum = match pv.as_f64() {
                    Some(x) => x.floor(),
                    None => return Err(Fault::Code(BErr::TypeMismatch)),
                };
                let lnum = match &l {
                    None => f64::MAX,
                    Some(v) => match v.as_f64() {
                        Some(x) => x.floor(),
                        None => return Err(Fault::Code(BErr::TypeMismatch)),
                    },
                };
                if pnum < 0.0 || lnum < 0.0 {
                    return Err(Fault::Any);
                }
                let (orig, ins) = match (orig, ins) {
                    (Val::Str(a), Val::Str(b)) => (a, b),
                    _ => return Err(Fault::Code(BErr::TypeMismatch)),
                };
                if pnum == 0.0 {
                    return Err(Fault::Any);
                }
                let o: Vec<char> = orig.chars().collect();
                let i: Vec<char> = ins.chars().collect();
                let start = (pnum as usize).saturating_sub(1);
                let mut res = o.clone();
                let mut k = 0usize;
                while start + k < o.len() && k < i.len() && (k as f64) < lnum {
                    res[start + k] = i[k];
                    k += 1;
                }
                let s: String = res.into_iter().collect();
                self.set_lval(lv, &Val::Str(s))?;
                Ok(Ctl::Next)
            }
            Def { name, params, body } => {
                if !in_program {
                    return Err(Fault::Code(BErr::IllegalDirect));
                }
                self.fns.insert(name.text(), FnDef { params: params.clone(), body: body.clone(), line: self.cur_line });
                Ok(Ctl::Next)
            }
            DefType(t, a, b) => {
                for c in (*a as u8)..=(*b as u8) {
                    self.deftypes[(c - b'A') as usize] = *t;
                }
                // "Any existing variables not matching the new type are dropped": undecorated
                // variables of the named letters whose value has another type are dropped. What
                // happens to undecorated variables of OTHER letters is left open by the manual:
                // those are recorded as uncertain and resolved by observation (C06) or make the
                // case undefined (everywhere else).
                let plain = |k: &str| !k.ends_with(|c: char| "$%!#".contains(c));
                let in_range = |k: &str| k.chars().next().map(|c| (c as u8) >= (*a as u8) && (c as u8) <= (*b as u8)).unwrap_or(false);
                let keys: Vec<String> = self.vars.keys().cloned().collect();
                for k in keys {
                    if plain(&k) && self.vars[&k].ty() != *t {
                        if in_range(&k) {
                            self.vars.remove(&k);
                        } else {
                            self.uncertain.push((k.clone(), None));
                        }
                    }
                }
                let akeys: Vec<String> = self.arrays.keys().cloned().collect();
                for k in akeys {
                    if !plain(&k) {
                        continue;
                    }
                    let idxs: Vec<Vec<i16>> = self.arrays[&k].elems.iter().filter(|(_, v)| v.ty() != *t).map(|(i, _)| i.clone()).collect();
                    for i in idxs {
                        if in_range(&k) {
                            self.arrays.get_mut(&k).unwrap().elems.remove(&i);
                        } else {
                            self.uncertain.push((k.clone(), Some(i)));
                        }
                    }
                }
                Ok(Ctl::Next)
            }
            Tron => {
                self.tron = true;
                self.last_traced = self.cur_line;
                Ok(Ctl::Next)
            }
            Troff => {
                self.tron = false;
                Ok(Ctl::Next)
            }
            Clear => {
                self.clear();
                Ok(Ctl::Next)
            }
            Run(n) => {
                self.clear();
                let p = match n {
                    Some(n) => self.line_pos(*n)?,
                    None => Pos { line: Some(0), idx: 0 },
                };
                self.hits.transfers += 1;
                Ok(Ctl::Go(p))
            }
            Cont => {
                if in_program {
                    return Err(Fault::Code(BErr::CantContinue));
                }
                match self.cont.take() {
                    None if self.cont_open => {
                        self.undefined = Some("CONT after a STOP that ends the program");
                        Ok(Ctl::Halt)
                    }
                    None => Err(Fault::Code(BErr::CantContinue)),
                    Some(p) => {
                        self.hits.stop_cont += 1;
                        Ok(Ctl::Go(p))
                    }
                }
            }
            List(_) | Delete(_) | New | Renum(_) => {
                self.undefined = Some("editing command executed by the model");
                Ok(Ctl::Halt)
            }
        }
    }

    /// INPUT reply handling per the C17 statement. Err(()) = REDO FROM START.
    fn accept_reply(&mut self, reply: &str, targets: &[Lval]) -> Result<(), ()> {
        if reply.len() > 1024 {
            return Err(());
        }
        let fields: Vec<String> = if targets.len() == 1 {
            vec![reply.to_string()]
        } else {
            let mut v = vec![];
            let mut cur = String::new();
            let mut q = false;
            for ch in reply.chars() {
                if ch == '"' {
                    q = !q;
                    cur.push(ch);
                } else if ch == ',' && !q {
                    v.push(std::mem::take(&mut cur));
                } else {
                    cur.push(ch);
                }
            }
            v.push(cur);
            v
        };
        if fields.len() != targets.len() {
            return Err(());
        }
        for (f, lv) in fields.iter().zip(targets.iter()) {
            let f = f.trim();
            let t = self.ty_of(lv.name());
            let v = if t == Ty::Str {
                let cs: Vec<char> = f.chars().collect();
                if cs.len() >= 2 && cs[0] == '"' && cs[cs.len() - 1] == '"' {
                    Val::Str(cs[1..cs.len() - 1].iter().collect())
                } else {
                    Val::Str(f.to_string())
                }
            } else if f.is_empty() {
                Val::Int(0)
            } else {
                let up = f.to_ascii_uppercase();
                if (up.contains("INF") || up.contains("NAN")) && t != Ty::Int {
                    // undocumented spellings: open for the float types; an Integer target refuses
                    // them under either reading (not a number / not in range)
                    self.flags.fuzzy_eq = true;
                }
                match parse_number(f) {
                    Some(v) => v,
                    None => return Err(()),
                }
            };
            if self.set_lval(lv, &v).is_err() {
                return Err(());
            }
        }
        Ok(())
    }
}

/// Value of a DATA constant (literal typing rules; a leading minus negates).
pub fn data_value(text: &str) -> Option<Val> {
    if let Some(s) = text.strip_prefix('"') {
        return Some(Val::Str(s.trim_end_matches('"').to_string()));
    }
    if let Some(r) = text.strip_prefix('-') {
        return literal(r).and_then(|v| negate(&v).ok());
    }
    literal(text)
}

impl Env for Machine {
    fn get(&mut self, n: &Name) -> Val {
        self.get_var(n)
    }
    fn get_elem(&mut self, n: &Name, subs: &[Val]) -> Result<Val, Fault> {
        let idx = self.subs(n, subs, true)?;
        let t = self.ty_of(n);
        Ok(self.arrays.get(&n.text()).and_then(|a| a.elems.get(&idx).cloned()).unwrap_or_else(|| Val::default_of(t)))
    }
    fn call_fn(&mut self, n: &Name, args: Vec<Val>, fl: &mut Flags) -> Result<Val, Fault> {
        let def = match self.fns.get(&n.text()) {
            Some(d) => d.clone(),
            None => return Err(Fault::Code(BErr::UndefinedUserFunction)),
        };
        if def.params.len() != args.len() {
            return Err(Fault::Code(BErr::IllegalFunctionCall));
        }
        self.hits.fn_calls += 1;
        if !self.scopes.is_empty() {
            self.hits.fn_nested = true;
        }
        if self.scopes.len() > 60 {
            return Err(Fault::Code(BErr::OutOfMemory));
        }
        let mut scope = HashMap::new();
        for (p, a) in def.params.iter().zip(args.iter()) {
            let t = p.ty(&self.deftypes);
            let v = match convert(t, a) {
                Ok(v) => stored(&v),
                Err(e) => {
                    // binding a parameter is part of the call: calling line or DEF line
                    if self.fn_error_line.is_none() {
                        self.fn_error_line = def.line;
                    }
                    return Err(Fault::Code(e));
                }
            };
            scope.insert(p.text(), v);
        }
        self.scopes.push(scope);
        let r = eval(&def.body, self, fl);
        self.scopes.pop();
        if r.is_err() && self.fn_error_line.is_none() {
            self.fn_error_line = def.line;
        }
        r
    }
    fn print_col(&self) -> usize {
        self.col
    }
}

/// Compare a model transcript with an implementation transcript. Model error texts are
/// patterns: `?CODE IN n` also matches `?CODE IN n; detail`, `?<ANY>` matches any code.
pub fn same_transcript(model: &[Ev], imp: &[Ev]) -> bool {
    if model.len() != imp.len() {
        return false;
    }
    for (m, i) in model.iter().zip(imp.iter()) {
        match (m, i) {
            (Ev::Errs(a), Ev::Errs(b)) => {
                if a.len() != b.len() {
                    return false;
                }
                for (x, y) in a.iter().zip(b.iter()) {
                    if !err_matches(x, y) {
                        return false;
                    }
                }
            }
            (a, b) => {
                if a != b {
                    return false;
                }
            }
        }
    }
    true
}

pub fn err_matches(pattern: &str, got: &str) -> bool {
    if pattern == got {
        return true;
    }
    let (gc, gdetail) = match got.find(';') {
        Some(i) => (&got[..i], true),
        None => (got, false),
    };
    if gdetail && gc == pattern {
        return true;
    }
    // alternatives for the line number: "?X IN 30|10" (calling line or DEF line), "?X IN |10"
    if let Some(bar) = pattern.rfind('|') {
        if let Some(inpos) = pattern.rfind(" IN ") {
            if inpos < bar {
                let head = &pattern[..inpos];
                let a = &pattern[inpos + 4..bar];
                let b = &pattern[bar + 1..];
                let alt1 = if a.is_empty() { head.to_string() } else { format!("{} IN {}", head, a) };
                let alt2 = format!("{} IN {}", head, b);
                return err_matches(&alt1, got) || err_matches(&alt2, got);
            }
        }
    }
    if let Some(rest) = pattern.strip_prefix("?<ANY>") {
        // rest = "" or " IN n"
        if !gc.starts_with('?') {
            return false;
        }
        return if rest.is_empty() { !gc.contains(" IN ") } else { gc.ends_with(rest) };
    }
    false
}
