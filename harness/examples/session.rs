//! session: enters each line of the file given as argument and prints the transcript (maintenance helper).
fn main() {
    let path = std::env::args().nth(1).expect("file");
    let text = std::fs::read_to_string(path).expect("read");
    let mut term = verif_check::drive::Term::new();
    let mut o = verif_check::drive::Opts::default();
    for l in text.lines() {
        term.line(l, &mut o);
        println!("> {}\n{}", l, verif_check::drive::flat(&term.take()));
    }
}
