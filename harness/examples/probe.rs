//! probe: prints tokens, listing and parse result of each argument line (maintenance helper).
use basic::lang::Line;
fn main() {
    for s in std::env::args().skip(1) {
        let (n, toks) = basic::lang::lex(&s);
        println!("source {:?}\n  number {:?}\n  tokens {:?}", s, n, toks);
        let l = Line::new(&s);
        let t1 = l.to_string();
        println!("  listed {:?}", t1);
        match l.ast() {
            Ok(a) => println!("  ast {:?}", a),
            Err(e) => println!("  error {:?}", e),
        }
        let l2 = Line::new(&t1);
        println!("  relisted {:?}", l2.to_string());
    }
}
