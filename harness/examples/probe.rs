//! probe: prints tokens, listing and parse result of each argument line (maintenance helper).
use basic::lang::Line;
fn main() {
    if std::env::var("PROBE_THREAD").is_ok() {
        // default thread stack (2 MiB) instead of the main thread's
        std::thread::spawn(run).join().unwrap();
    } else {
        run();
    }
}

fn run() {
    for s in std::env::args().skip(1) {
        let (n, toks) = basic::lang::lex(&s);
        println!("source {:?}\n  number {:?}\n  tokens {:?}", s, n, toks);
        let l = Line::new(&s);
        let t1 = l.to_string();
        println!("  listed {:?}", t1);
        match l.ast() {
            Ok(a) => println!("  ast {:?}", a),
            Err(e) => println!("  error {:?}", e),
        }
        let l2 = Line::new(&t1);
        println!("  relisted {:?}", l2.to_string());
        // and through the runtime
        let mut term = verif_check::drive::Term::new();
        let mut o = verif_check::drive::Opts::default();
        term.line(&s, &mut o);
        let out = verif_check::drive::flat(&term.take());
        println!("  entered: {:?}", &out[..out.len().min(200)]);
    }
}
