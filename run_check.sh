#!/bin/sh
# run_check.sh <ID> <quick|thorough>   |   run_check.sh <ID> --replay <file>
# Rebuilds the harness (and with it basic-lang from /repo's current working tree, hooks
# enabled) and runs the check. Exit 0 = held, 1 = VIOLATION, 2 = inconclusive.
cd "$(dirname "$0")" || exit 2
export CARGO_NET_OFFLINE=true
export VERIF_ROOT="$(pwd)"
if ! (cd harness && cargo build --release --offline >build.log 2>&1); then
    echo "INCONCLUSIVE: harness build failed (see harness/build.log)"
    tail -n 30 harness/build.log
    exit 2
fi
ID="$1"
TIER="$2"
harness/target/release/verif-check "$@"
RC=$?
# Thorough tier of C03 / C05: a coverage-guided libFuzzer campaign on top of the generated
# cases (same decoders and oracles, in-target). A missing nightly toolchain only skips it.
if [ "$RC" = "0" ] && [ "$TIER" = "thorough" ] && { [ "$ID" = "C03" ] || [ "$ID" = "C05" ]; }; then
    if [ "$ID" = "C03" ]; then TARGET=c03_session; MAXLEN=700; RUNS=${VERIF_FUZZ_RUNS:-150000}; else TARGET=c05_roundtrip; MAXLEN=160; RUNS=${VERIF_FUZZ_RUNS:-4000000}; fi
    SEED=${VERIF_SEED:-1}; [ "$SEED" = "0" ] && SEED=1
    WORK="$VERIF_ROOT/fuzz/fuzz/corpus-run/$TARGET.$$"
    ART="$VERIF_ROOT/fuzz/fuzz/artifacts/$TARGET/"
    rm -rf "$WORK"; mkdir -p "$WORK" "$ART"; rm -f "$ART"/crash-* "$ART"/timeout-* "$ART"/oom-* 2>/dev/null
    cp "$VERIF_ROOT/corpus/$TARGET/"* "$WORK/" 2>/dev/null
    if (cd fuzz && cargo +nightly fuzz build -O "$TARGET" >fuzz-build.log 2>&1); then
        START=$(date +%s)
        (cd fuzz && cargo +nightly fuzz run -O "$TARGET" "$WORK" -- -runs="$RUNS" -seed="$SEED" -len_control=0 -max_len="$MAXLEN" -timeout=90 -rss_limit_mb=4096 >fuzz-run.log 2>&1)
        FRC=$?
        END=$(date +%s)
        FOUND=$(ls "$ART" 2>/dev/null | grep -E '^(crash|timeout|oom)-' | head -1)
        python3 - "$ID" "$TARGET" "$RUNS" "$SEED" "$FRC" "$((END-START))" "$ART$FOUND" "$WORK" <<'PY'
import json, sys, os, re
ID, target, runs, seed, frc, secs, art, work = sys.argv[1:9]
root = os.environ.get('VERIF_ROOT', '/verif')
evp = '%s/evidence/%s.json' % (root, ID)
ev = json.load(open(evp))
log = ''
try:
    log = open('%s/fuzz/fuzz-run.log' % root, errors='replace').read()
except Exception:
    pass
execs = 0
m = re.findall(r'^#(\d+)\s', log, re.M)
if m:
    execs = max(int(x) for x in m)
cov = re.findall(r'cov: (\d+)', log)
fz = {'engine': 'libFuzzer (cargo-fuzz), in-target oracle', 'target': target, 'runs_requested': int(runs), 'executions': execs,
      'seed': int(seed), 'exit': int(frc), 'wall_s': int(secs), 'edge_coverage': int(cov[-1]) if cov else None,
      'corpus_files_at_end': len(os.listdir(work)) if os.path.isdir(work) else None}
viol = None
if os.path.isfile(art):
    data = open(art, 'rb').read()
    os.makedirs('%s/replays' % root, exist_ok=True)
    rp = '%s/replays/%s_fuzz_%s.json' % (root, ID, os.path.basename(art))
    if ID == 'C03':
        rep = {'property': 'C03', 'check': 'sessions', 'tape_hex': data.hex(), 'clause': 'libFuzzer artifact ' + os.path.basename(art)}
    else:
        rep = {'property': 'C05', 'check': 'corpus', 'item': data.decode('utf-8', 'replace'), 'clause': 'libFuzzer artifact ' + os.path.basename(art)}
    json.dump(rep, open(rp, 'w'), ensure_ascii=False, indent=1)
    fz['artifact'] = os.path.basename(art)
    # libFuzzer is the finder, the harness is the judge: its timeout is wall-clock (a loaded
    # machine trips it) and its build differs from the release build, so every artifact is
    # replayed through the harness (CPU-time watchdog) and only a reproduced failure counts.
    import subprocess
    r = subprocess.run(['%s/harness/target/release/verif-check' % root, ID, '--replay', rp], capture_output=True, text=True)
    if r.returncode == 1:
        viol = rp
        ev['violations'] = ev.get('violations', 0) + 1
        fz['artifact_verdict'] = 'reproduced by the harness replay'
    else:
        fz['artifact_verdict'] = 'not reproduced by the harness replay (exit %d): slow input under load, or a condition of the fuzz build only; not a violation' % r.returncode
        print('%s thorough: libFuzzer artifact %s not reproduced by the harness replay (exit %d) - not a violation' % (ID, os.path.basename(art), r.returncode))
ev['coverage']['fuzz_campaign'] = fz
ev['coverage']['evaluations'] = ev['coverage'].get('evaluations', 0) + execs
json.dump(ev, open(evp, 'w'), indent=1)
print('%s thorough: libFuzzer %s: %d executions in %s s, exit %s' % (ID, target, execs, secs, frc))
if viol:
    print('VIOLATION property=%s replay=%s' % (ID, viol))
    sys.exit(1)
PY
        PRC=$?
        rm -rf "$WORK"
        [ "$PRC" = "1" ] && exit 1
    else
        echo "$ID thorough: libFuzzer stage skipped (cargo +nightly fuzz build failed, see fuzz/fuzz-build.log); the generated-case part decided the property"
    fi
fi
exit $RC
