#!/bin/sh
# run_check.sh <ID> <quick|thorough>   |   run_check.sh <ID> --replay <file>
# Rebuilds the harness (and with it basic-lang from /repo's current working tree, hooks
# enabled) and runs the check. Exit 0 = held, 1 = VIOLATION, 2 = inconclusive.
cd "$(dirname "$0")" || exit 2
export CARGO_NET_OFFLINE=true
export VERIF_ROOT="$(pwd)"
if ! (cd harness && cargo build --release --offline >build.log 2>&1); then
    echo "INCONCLUSIVE: harness build failed (see harness/build.log)"
    tail -n 30 harness/build.log
    exit 2
fi
exec harness/target/release/verif-check "$@"
