#!/bin/sh
# tools_seeds.sh [seed ...] — maintenance helper (not a check): runs every quick check once per
# seed, each in a fresh process, on the current /repo tree and reports any non-zero exit.
cd "$(dirname "$0")" || exit 2
SEEDS="${@:-2 3 5 7 11}"
BAD=0
for s in $SEEDS; do
  for i in 01 02 03 04 05 06 07 08 09 10 11 12 13 14 15 16 17 18 19 20; do
    VERIF_SEED=$s ./run_check.sh C$i quick > /tmp/seeds_C${i}_$s.log 2>&1; rc=$?
    if [ $rc -ne 0 ]; then BAD=$((BAD+1)); echo "seed $s C$i exit=$rc"; grep -E "^--- |^VIOLATION|^WEDGE|^INCONCLUSIVE" /tmp/seeds_C${i}_$s.log | head -5; fi
  done
  echo "seed $s done"
done
echo "non-zero exits: $BAD"
